#!/usr/bin/env python3
# validates MANIFEST.json and every evidence file against the given schemas (needs the tooling venv: python3-vt)
import json, sys, glob, jsonschema
ok = True
m = json.load(open('/verif/MANIFEST.json'))
jsonschema.validate(m, json.load(open('/root/.vp/MANIFEST.schema.json')))
es = json.load(open('/root/.vp/EVIDENCE.schema.json'))
for f in sorted(glob.glob('/verif/evidence/*.json')):
    try:
        ev = json.load(open(f)); jsonschema.validate(ev, es)
        print(f, 'ok', ev['tier'], ev['coverage'].get('evaluations'), ev['coverage'].get('distinct_nontrivial'), ev['wall_s'])
    except Exception as e:
        ok = False; print(f, 'INVALID', str(e)[:300])
ids = [json.loads(l)['id'] for l in open('/verif/properties.jsonl')]
claimed = [c['property_id'] for c in m['checks']]
na = [c['property_id'] for c in m.get('not_applicable', [])]
for i in ids:
    if (i in claimed) == (i in na):
        ok = False; print('property', i, 'claimed' if i in claimed else 'neither claimed nor not_applicable')
print('manifest ok; claimed', len(claimed), 'n/a', len(na))
sys.exit(0 if ok else 1)
