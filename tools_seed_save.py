#!/usr/bin/env python3
# usage: tools_seed_save.py <seed-id> <PROP> <mutant-dir> <what> <needs> <caught_by>
import sys, os, shutil, json, glob
sid, prop, src, what, needs, caught = sys.argv[1:7]
dst = '/verif/seeded/' + sid
os.makedirs(dst, exist_ok=True)
for f in glob.glob(src + '/*'):
    if os.path.isfile(f):
        shutil.copy(f, dst)
meta = {"id": sid, "property": prop, "what": what, "needs": needs,
        "ran": "tools_seed.sh: scratch worktree of /repo HEAD — existing suite passes with patch.diff applied; demonstration passes without and fails with the patch; then `git -C /repo apply patch.diff`, ./check <ids> --tier quick, `git -C /repo checkout -- .`",
        "caught_by": caught, "source": "fresh sub-agent given only the property text and a scratch worktree"}
json.dump(meta, open(dst + '/meta.json', 'w'), indent=1)
print('saved', dst)
