#!/bin/bash
# runs every claimed check at the given tier (default quick) and prints one line each
tier="${1:-quick}"
cd /verif
for id in $(python3 -c "import json; print(' '.join(c['property_id'] for c in json.load(open('MANIFEST.json'))['checks']))"); do
  s=$(date +%s)
  out=$(./check $id --tier $tier 2>&1); rc=$?
  e=$(( $(date +%s) - s ))
  echo "$id rc=$rc ${e}s $(echo "$out" | grep -c KNOWN-FINDING) known | $(echo "$out" | grep -v KNOWN-FINDING | tail -1 | cut -c1-150)"
done
