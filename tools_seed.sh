#!/bin/bash
# usage: tools_seed.sh <PROP> <mutant-dir> [check ids...]   — confirm a seeded change and run checks against it
# 1. scratch worktree of /repo HEAD: suite passes with the patch, demo fails with it and passes without
# 2. patch applied to /repo, given checks (default: the property's) run at quick tier, /repo restored
set -u
prop="$1"; src="$2"; shift 2; checks="${*:-$prop}"
export GOFLAGS=-mod=mod GOPROXY=off GOSUMDB=off GOTOOLCHAIN=local
PK="./asm/... ./cache/... ./db ./db/fs/... ./db/mem/... ./db/postgres/... ./engine/... ./lang/... ./persist/... ./render/... ./resource/... ./state/... ./vm/..."
wt=/var/tmp/vwt.$$
git -C /repo worktree add -q --detach $wt HEAD || exit 2
cleanup() { git -C /repo worktree remove --force $wt 2>/dev/null; }
trap cleanup EXIT
demo=$(ls $src/*_test.go 2>/dev/null | head -1)
pkg=""
if [ -n "$demo" ]; then
  p=$(grep -m1 '^package ' $demo | awk '{print $2}' | sed 's/_test$//')
  case "$p" in fs) pkg=db/fs;; mem) pkg=db/mem;; postgres) pkg=db/postgres;; db) pkg=db;; *) pkg=$p;; esac
  [ -n "${DEMO_PKG:-}" ] && pkg=$DEMO_PKG
fi
echo "demo: $demo -> package dir $pkg"
cd $wt
if [ "${SKIP_DEMO:-0}" = 1 ]; then demo=""; fi
if [ -n "$demo" ] && [ -d "$pkg" ]; then
  cp $demo $pkg/zz_seed_demo_test.go
  if go test -vet=off -count=1 ./$pkg/ >/var/tmp/seed.$$.out 2>&1; then echo "demo WITHOUT patch: pass (ok)"; else echo "demo WITHOUT patch: FAIL (bad)"; tail -5 /var/tmp/seed.$$.out; fi
  rm $pkg/zz_seed_demo_test.go
fi
git apply $src/patch.diff || { echo "patch does not apply"; exit 2; }
if [ "${SKIP_DEMO:-0}" = 1 ]; then :; elif go test -vet=off -count=1 $PK >/var/tmp/seed.$$.out 2>&1; then echo "suite WITH patch: pass (ok)"; else echo "suite WITH patch: FAIL (bad)"; grep -v "^ok" /var/tmp/seed.$$.out | tail -8; fi
if [ -n "$demo" ] && [ -d "$pkg" ]; then
  cp $demo $pkg/zz_seed_demo_test.go
  if go test -vet=off -count=1 ./$pkg/ >/var/tmp/seed.$$.out 2>&1; then echo "demo WITH patch: pass (bad: does not demonstrate)"; else echo "demo WITH patch: fail (ok)"; fi
  rm $pkg/zz_seed_demo_test.go
fi
# checks run against the patched scratch worktree (VERIF_REPO) unless IN_REPO=1 asks for the literal
# "apply to /repo, run, undo" procedure (only when no other check is running from /repo)
if [ "${IN_REPO:-0}" = 1 ]; then
  cd /repo
  if ! git diff --quiet; then echo "/repo dirty"; exit 2; fi
  git apply $src/patch.diff || exit 2
  target=/repo
else
  target=$wt
fi
for c in $checks; do
  out=$(cd ${VERIF_DIR:-/verif} && VERIF_REPO=$target VERIF_EVIDENCE_DIR=/var/tmp/verif-evidence-scratch ./check $c --tier ${TIER:-quick} 2>&1); rc=$?
  [ "${VERBOSE:-0}" = 1 ] && echo "$out" | grep -v "KNOWN-FINDING\|rapid\] draw\|WARNING" | tail -${VERBOSE_LINES:-25} | cut -c1-600
  echo "check $c rc=$rc | $(echo "$out" | grep -v "KNOWN-FINDING\|rapid\] draw" | grep "violated\|^OK\|INCONCLUSIVE\|DATA RACE" | head -1 | cut -c1-260)"
done
if [ "${IN_REPO:-0}" = 1 ]; then git -C /repo checkout -- . ; fi
git -C /repo status --short | head -3
rm -f /var/tmp/seed.$$.out
