#!/usr/bin/env python3
# pretty-prints a replay file holding an application case
import json, sys
r = json.load(open(sys.argv[1]))
c = r['case']
names = {0:'NOOP',1:'CATCH',2:'CROAK',3:'LOAD',4:'RELOAD',5:'MAP',6:'MOVE',7:'HALT',8:'INCMP',9:'MSINK',10:'MOUT',11:'MNEXT',12:'MPREV'}
def show_app(a):
    for n in a['nodes']:
        print('node', n['name'], 'tpl=%r' % n['tpl'])
        for i in n.get('code') or []:
            args = [str(i[k]) for k in ('sym','sel') if k in i]
            if names[i['op']] in ('CATCH','CROAK','LOAD'): args.append(str(i.get('num',0)))
            if names[i['op']] in ('CATCH','CROAK'): args.append('1' if i.get('mode') else '0')
            print('    ', names[i['op']], ' '.join(args))
    used = set()
    for n in a['nodes']:
        for i in n.get('code') or []:
            if names[i['op']] in ('LOAD','RELOAD'): used.add(i['sym'])
    for s in a['syms']:
        if s['name'] in used: print('sym', s['name'], json.dumps(s['results']))
    print('cfg', a['cfg'], 'menus', a.get('menus'))
    for t in a.get('trans') or []:
        print('trans', t['lang'], {k:v for k,v in t.items() if k!='lang' and v})
if 'app' in c: show_app(c['app'])
for k,v in c.items():
    if k != 'app': print(k, '=', json.dumps(v)[:2000])
print('VIOLATION', r.get('violation',{}).get('kind'), r.get('violation',{}).get('msg'))
