module verifharness

go 1.23

toolchain go1.23.5

require (
	git.defalsify.org/vise.git v0.0.0
	github.com/jackc/pgx/v5 v5.7.0
	pgregory.net/rapid v1.3.0
)

replace git.defalsify.org/vise.git => /repo
