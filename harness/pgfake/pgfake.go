// Package pgfake is an in-process transactional fake of the slice of the pgx
// driver interface that db/postgres uses (postgres.PgInterface, pgx.Tx, pgx.Rows),
// with fault injection and a transaction log.
//
// Server rules modelled:
//   - committed state is a map bytea -> bytea; each transaction has an overlay;
//     reads see overlay then committed state (read committed); commit publishes,
//     rollback discards
//   - after a failed statement a transaction is aborted: every later statement in it
//     fails, and COMMIT turns into a rollback (pgx.ErrTxCommitRollback)
//   - Commit/Rollback always end the transaction object, also when they fail; calling
//     them again returns pgx.ErrTxClosed (pgx documents that as safe)
//   - statements on an ended transaction fail with pgx.ErrTxClosed (logged as misuse)
package pgfake

import (
	"bytes"
	"context"
	"errors"
	"fmt"
	"sort"
	"strings"
	"sync"

	pgx "github.com/jackc/pgx/v5"
	"github.com/jackc/pgx/v5/pgconn"
)

var ErrInjected = errors.New("pgfake: injected failure")

// retryableError is what the driver reports for a pooled connection found dead before
// anything was sent: pgconn.SafeToRetry says yes.
type retryableError struct{}

func (retryableError) Error() string     { return "pgfake: injected failure (conn closed, safe to retry)" }
func (retryableError) SafeToRetry() bool { return true }

// injected returns the error of an injected fault.
func (s *Server) injected() error {
	if s.Retryable {
		return retryableError{}
	}
	return ErrInjected
}

var ErrAborted = errors.New("pgfake: current transaction is aborted, commands ignored until end of transaction block (SQLSTATE 25P02)")

// Event is one entry of the transaction log.
type Event struct {
	Op   string // begin commit rollback exec query next scan close-conn
	Tx   int    // transaction number (0: none)
	OK   bool
	Note string // injected | aborted | closed | commit-rollback | unknown-statement
}

func (e Event) String() string {
	s := fmt.Sprintf("%s(tx%d)", e.Op, e.Tx)
	if !e.OK {
		s += "!" + e.Note
	}
	return s
}

type Server struct {
	mu        sync.Mutex
	committed map[string][]byte
	Log       []Event
	nextTx    int
	prim      int          // primitive call counter (1-based ordinals)
	faults    map[int]bool // ordinals that fail
	open      map[int]*Tx
	Unknown   []string // statements the fake did not recognise
	Misuse    []string // use of an ended transaction, statements after close
	closed    bool
	// Lenient: a failed statement or row fetch leaves its transaction usable (an error
	// that the server did not see, e.g. a client-side failure); by default the transaction
	// is aborted the way Postgres aborts it and every later statement in it fails
	Lenient bool
	// Retryable: injected faults are errors the driver calls safe to retry
	Retryable bool
}

func NewServer() *Server {
	return &Server{committed: map[string][]byte{}, faults: map[int]bool{}, open: map[int]*Tx{}}
}

// FailAt makes the n-th primitive call from now (1-based, counted over BeginTx, Exec,
// Query, Next, Scan, Commit, Rollback) fail.
func (s *Server) FailAt(ordinals ...int) {
	s.mu.Lock()
	defer s.mu.Unlock()
	for _, o := range ordinals {
		s.faults[s.prim+o] = true
	}
}

// SetFaults replaces the fault plan with absolute ordinals.
func (s *Server) SetFaults(ordinals []int) {
	s.mu.Lock()
	defer s.mu.Unlock()
	s.faults = map[int]bool{}
	for _, o := range ordinals {
		s.faults[o] = true
	}
}

func (s *Server) ClearFaults() {
	s.mu.Lock()
	defer s.mu.Unlock()
	s.faults = map[int]bool{}
}

// Prim reports how many primitive calls have been made.
func (s *Server) Prim() int {
	s.mu.Lock()
	defer s.mu.Unlock()
	return s.prim
}

// PendingFaults reports whether a planned fault has not fired yet.
func (s *Server) PendingFaults() bool {
	s.mu.Lock()
	defer s.mu.Unlock()
	for o := range s.faults {
		if o > s.prim {
			return true
		}
	}
	return false
}

// step counts a primitive call and reports whether it must fail.
func (s *Server) step() bool {
	s.prim++
	return s.faults[s.prim]
}

// stepCtx: a call made with a context that is already done fails like any other failing
// call (a request whose deadline has passed: the driver does not reach the server; a
// Commit or Rollback that fails this way still ends the transaction - the driver gives the
// connection up).
func (s *Server) stepCtx(ctx context.Context) bool {
	planned := s.step()
	return planned || ctx.Err() != nil
}

// Committed returns a copy of the committed value (independent reader).
func (s *Server) Committed(key []byte) ([]byte, bool) {
	s.mu.Lock()
	defer s.mu.Unlock()
	v, ok := s.committed[string(key)]
	return append([]byte(nil), v...), ok
}

func (s *Server) CommittedAll() map[string][]byte {
	s.mu.Lock()
	defer s.mu.Unlock()
	m := map[string][]byte{}
	for k, v := range s.committed {
		m[k] = append([]byte(nil), v...)
	}
	return m
}

// OpenTx lists transaction numbers that were begun and not ended.
func (s *Server) OpenTx() []int {
	s.mu.Lock()
	defer s.mu.Unlock()
	var out []int
	for id := range s.open {
		out = append(out, id)
	}
	sort.Ints(out)
	return out
}

func (s *Server) LogLen() int {
	s.mu.Lock()
	defer s.mu.Unlock()
	return len(s.Log)
}

func (s *Server) LogSince(i int) []Event {
	s.mu.Lock()
	defer s.mu.Unlock()
	return append([]Event(nil), s.Log[i:]...)
}

func (s *Server) logf(op string, tx int, ok bool, note string) {
	s.Log = append(s.Log, Event{op, tx, ok, note})
}

// Conn is one "pool" handle (postgres.PgInterface).
type Conn struct {
	srv    *Server
	Closed bool
}

func (s *Server) Conn() *Conn { return &Conn{srv: s} }

func (c *Conn) BeginTx(ctx context.Context, opts pgx.TxOptions) (pgx.Tx, error) {
	s := c.srv
	s.mu.Lock()
	defer s.mu.Unlock()
	if c.Closed {
		s.Misuse = append(s.Misuse, "BeginTx on a closed connection")
		s.logf("begin", 0, false, "closed")
		return nil, errors.New("pgfake: closed pool")
	}
	if s.stepCtx(ctx) {
		s.logf("begin", 0, false, "injected")
		return nil, s.injected()
	}
	s.nextTx++
	tx := &Tx{srv: s, id: s.nextTx, overlay: map[string][]byte{}}
	s.open[tx.id] = tx
	s.logf("begin", tx.id, true, "")
	return tx, nil
}

func (c *Conn) Close() {
	c.srv.mu.Lock()
	defer c.srv.mu.Unlock()
	c.Closed = true
	c.srv.logf("close-conn", 0, true, "")
}

// Tx implements pgx.Tx (the embedded nil interface panics on methods db/postgres does not use).
type Tx struct {
	pgx.Tx
	srv     *Server
	id      int
	overlay map[string][]byte
	aborted bool
	done    bool
}

func (t *Tx) ID() int { return t.id }

func (t *Tx) end(commit bool) {
	if commit {
		for k, v := range t.overlay {
			t.srv.committed[k] = v
		}
	}
	t.done = true
	delete(t.srv.open, t.id)
}

func (t *Tx) Commit(ctx context.Context) error {
	s := t.srv
	s.mu.Lock()
	defer s.mu.Unlock()
	if t.done {
		s.logf("commit", t.id, false, "closed")
		return pgx.ErrTxClosed
	}
	if s.stepCtx(ctx) {
		t.end(false)
		s.logf("commit", t.id, false, "injected")
		return s.injected()
	}
	if t.aborted {
		t.end(false)
		s.logf("commit", t.id, false, "commit-rollback")
		return pgx.ErrTxCommitRollback
	}
	t.end(true)
	s.logf("commit", t.id, true, "")
	return nil
}

func (t *Tx) Rollback(ctx context.Context) error {
	s := t.srv
	s.mu.Lock()
	defer s.mu.Unlock()
	if t.done {
		s.logf("rollback", t.id, false, "closed")
		return pgx.ErrTxClosed
	}
	fail := s.stepCtx(ctx)
	t.end(false)
	if fail {
		s.logf("rollback", t.id, false, "injected")
		return s.injected()
	}
	s.logf("rollback", t.id, true, "")
	return nil
}

func asBytes(a any) ([]byte, bool) {
	switch v := a.(type) {
	case []byte:
		return v, true
	case string:
		return []byte(v), true
	}
	return nil, false
}

// usable checks the transaction state before a statement.
func (t *Tx) usable(ctx context.Context, op string) error {
	s := t.srv
	if t.done {
		s.Misuse = append(s.Misuse, fmt.Sprintf("%s on ended transaction tx%d", op, t.id))
		s.logf(op, t.id, false, "closed")
		return pgx.ErrTxClosed
	}
	if s.stepCtx(ctx) {
		t.aborted = !s.Lenient
		s.logf(op, t.id, false, "injected")
		return s.injected()
	}
	if t.aborted {
		s.logf(op, t.id, false, "aborted")
		return ErrAborted
	}
	return nil
}

func (t *Tx) Exec(ctx context.Context, sql string, args ...any) (pgconn.CommandTag, error) {
	s := t.srv
	s.mu.Lock()
	defer s.mu.Unlock()
	if err := t.usable(ctx, "exec"); err != nil {
		return pgconn.CommandTag{}, err
	}
	q := strings.TrimSpace(sql)
	switch {
	case strings.HasPrefix(q, "INSERT INTO") && strings.Contains(q, ".kv_vise") && strings.Contains(q, "ON CONFLICT"):
		if len(args) != 2 {
			break
		}
		k, ok1 := asBytes(args[0])
		v, ok2 := asBytes(args[1])
		if !ok1 || !ok2 {
			break
		}
		t.overlay[string(k)] = append([]byte{}, v...)
		s.logf("exec", t.id, true, "")
		return pgconn.NewCommandTag("INSERT 0 1"), nil
	case strings.HasPrefix(q, "CREATE TABLE IF NOT EXISTS"):
		s.logf("exec", t.id, true, "")
		return pgconn.NewCommandTag("CREATE TABLE"), nil
	}
	s.Unknown = append(s.Unknown, sql)
	s.logf("exec", t.id, false, "unknown-statement")
	t.aborted = true
	return pgconn.CommandTag{}, fmt.Errorf("pgfake: unrecognised statement: %s", sql)
}

func (t *Tx) read(k []byte) ([]byte, bool) {
	if v, ok := t.overlay[string(k)]; ok {
		return v, true
	}
	v, ok := t.srv.committed[string(k)]
	return v, ok
}

func (t *Tx) Query(ctx context.Context, sql string, args ...any) (pgx.Rows, error) {
	s := t.srv
	s.mu.Lock()
	defer s.mu.Unlock()
	if err := t.usable(ctx, "query"); err != nil {
		return nil, err
	}
	q := strings.TrimSpace(sql)
	if len(args) == 1 {
		k, ok := asBytes(args[0])
		if ok && strings.HasPrefix(q, "SELECT value FROM") && strings.Contains(q, "WHERE key = $1") {
			r := &Rows{tx: t}
			if v, ok := t.read(k); ok {
				r.rows = append(r.rows, [][]byte{append([]byte{}, v...)})
			}
			s.logf("query", t.id, true, "")
			return r, nil
		}
		if ok && strings.HasPrefix(q, "SELECT key, value FROM") && strings.Contains(q, "WHERE key >= $1") {
			r := &Rows{tx: t}
			keys := map[string]bool{}
			for kk := range s.committed {
				keys[kk] = true
			}
			for kk := range t.overlay {
				keys[kk] = true
			}
			var ks []string
			for kk := range keys {
				if bytes.Compare([]byte(kk), k) >= 0 {
					ks = append(ks, kk)
				}
			}
			sort.Strings(ks)
			for _, kk := range ks {
				v, _ := t.read([]byte(kk))
				r.rows = append(r.rows, [][]byte{[]byte(kk), append([]byte{}, v...)})
			}
			s.logf("query", t.id, true, "")
			return r, nil
		}
	}
	s.Unknown = append(s.Unknown, sql)
	s.logf("query", t.id, false, "unknown-statement")
	t.aborted = true
	return nil, fmt.Errorf("pgfake: unrecognised statement: %s", sql)
}

// Rows implements pgx.Rows.
type Rows struct {
	tx     *Tx
	rows   [][][]byte
	pos    int // 1-based index of the current row
	closed bool
	err    error
}

func (r *Rows) Close()                                       { r.closed = true }
func (r *Rows) Err() error                                   { return r.err }
func (r *Rows) CommandTag() pgconn.CommandTag                { return pgconn.NewCommandTag("SELECT") }
func (r *Rows) FieldDescriptions() []pgconn.FieldDescription { return nil }
func (r *Rows) Conn() *pgx.Conn                              { return nil }

func (r *Rows) Next() bool {
	s := r.tx.srv
	s.mu.Lock()
	defer s.mu.Unlock()
	if r.closed {
		return false
	}
	if s.step() {
		// a failed fetch: the result set ends prematurely, the transaction is broken
		r.err = r.tx.srv.injected()
		r.closed = true
		r.tx.aborted = !s.Lenient
		s.logf("next", r.tx.id, false, "injected")
		return false
	}
	if r.pos >= len(r.rows) {
		r.closed = true
		return false
	}
	r.pos++
	return true
}

func (r *Rows) Scan(dest ...any) error {
	s := r.tx.srv
	s.mu.Lock()
	defer s.mu.Unlock()
	if r.pos == 0 || r.pos > len(r.rows) {
		return errors.New("pgfake: Scan without a current row")
	}
	if s.step() {
		s.logf("scan", r.tx.id, false, "injected")
		return s.injected()
	}
	row := r.rows[r.pos-1]
	if len(dest) != len(row) {
		return fmt.Errorf("pgfake: Scan with %d destinations for %d columns", len(dest), len(row))
	}
	for i, d := range dest {
		switch p := d.(type) {
		case *[]byte:
			*p = append([]byte{}, row[i]...)
		case *string:
			*p = string(row[i])
		case nil:
		default:
			return fmt.Errorf("pgfake: unsupported Scan destination %T", d)
		}
	}
	return nil
}

func (r *Rows) Values() ([]any, error) {
	if r.pos == 0 || r.pos > len(r.rows) {
		return nil, errors.New("pgfake: Values without a current row")
	}
	var out []any
	for _, c := range r.rows[r.pos-1] {
		out = append(out, c)
	}
	return out, nil
}

func (r *Rows) RawValues() [][]byte {
	if r.pos == 0 || r.pos > len(r.rows) {
		return nil
	}
	return r.rows[r.pos-1]
}
