// c19solo serves the sessions of a C19 case one after another in a process of its own and
// prints what each request answered. A fresh process has none of the state the library may
// have filled in while serving other sessions or earlier cases: its transcripts are the
// reference for "no hidden state leaks from one session into another" that the long-running
// test process cannot give itself.
package main

import (
	"encoding/json"
	"fmt"
	"io"
	"log"
	"os"
	"path/filepath"

	"verifharness/app"
	"verifharness/refdec"
)

type Job struct {
	App   *app.App      `json:"app"`
	Hists [][]refdec.BS `json:"hists"`
	Mode  app.Mode      `json:"mode"`
	Dir   string        `json:"dir"` // scratch directory (fs backend)
	Alt   []int         `json:"alt"` // per session: 1 other output size, 2 second application
	UsePo bool          `json:"use_po"`
}

type Answer struct {
	Visible string        `json:"visible"`
	Panic   string        `json:"panic,omitempty"`
	Ends    bool          `json:"ends"`
	After   *app.Snapshot `json:"after,omitempty"`
}

func main() {
	log.SetOutput(io.Discard)
	b, err := os.ReadFile(os.Args[1])
	if err != nil {
		fmt.Fprintln(os.Stderr, err)
		os.Exit(2)
	}
	var job Job
	if err := json.Unmarshal(b, &job); err != nil {
		fmt.Fprintln(os.Stderr, err)
		os.Exit(2)
	}
	out := make([][]Answer, len(job.Hists))
	for i, h := range job.Hists {
		var st app.Storage
		if job.Mode.Kind == "persist" {
			switch job.Mode.Backend {
			case "fs":
				st = app.NewFsStorage(filepath.Join(job.Dir, fmt.Sprintf("s%d", i)), false)
			default:
				st = app.NewMemStorage()
			}
		}
		a := job.App
		if i < len(job.Alt) && job.Alt[i] == 2 {
			a = app.SecondApp(a)
		}
		sh := app.NewShared(a)
		if job.UsePo {
			pd := filepath.Join(job.Dir, fmt.Sprintf("po%d", i))
			if err := sh.WritePo(pd); err == nil {
				sh.UsePo, sh.PoDir = true, pd
			}
		}
		s := app.NewSession(sh, job.Mode, st)
		if i < len(job.Alt) && job.Alt[i] == 1 {
			s.Cfg.OutputSize = app.OtherOutputSize(s.Cfg.OutputSize)
		}
		s.Cfg.SessionId = fmt.Sprintf("sess%d", i)
		for _, in := range h {
			step := s.Request([]byte(in))
			ends := step.Panic != "" || step.Exceeded || !step.Cont || step.ExecErr != "" || step.FlushErr != ""
			out[i] = append(out[i], Answer{Visible: step.Visible(), Panic: step.Panic, Ends: ends, After: step.After})
			if ends {
				break
			}
		}
	}
	json.NewEncoder(os.Stdout).Encode(out)
}
