// c12saver serves generated histories in persisted mode over the filesystem backend,
// using only the repository's own code for storage, and brackets every request with
// marker syscalls (stat of a non-existent magic path) so that an strace of this process
// can be cut into per-request file-system operation lists (C12).
package main

import (
	"encoding/hex"
	"encoding/json"
	"fmt"
	"io"
	"log"
	"os"
	"path/filepath"

	"verifharness/app"
	"verifharness/refdec"
)

type Job struct {
	App      *app.App     `json:"app"`
	Dir      string       `json:"dir"`
	Sessions []string     `json:"sessions"`
	Requests []JobRequest `json:"requests"`
}

type JobRequest struct {
	Session int       `json:"session"`
	Input   refdec.BS `json:"input"`
	// Legacy: before this request the session's record is moved to its legacy name (the
	// name without the data type character, which the backend still reads)
	Legacy bool `json:"legacy,omitempty"`
	// LegacyCopy: before this request the session's record is copied to its legacy name (what
	// an older version that has since saved under the current name leaves behind)
	LegacyCopy bool `json:"legacy_copy,omitempty"`
}

type JobResult struct {
	N       int    `json:"n"`
	Session int    `json:"session"`
	Visible string `json:"visible"`
	Finish  string `json:"finish_err,omitempty"`
	Panic   string `json:"panic,omitempty"`
	// Saved: the session records the library asked the store to keep during this request (hex)
	Saved []string `json:"saved,omitempty"`
}

func marker(kind string, n int) {
	os.Stat(fmt.Sprintf("/verif-marker/%s/%d", kind, n))
}

func main() {
	log.SetOutput(io.Discard)
	b, err := os.ReadFile(os.Args[1])
	if err != nil {
		fmt.Fprintln(os.Stderr, err)
		os.Exit(2)
	}
	var job Job
	if err := json.Unmarshal(b, &job); err != nil {
		fmt.Fprintln(os.Stderr, err)
		os.Exit(2)
	}
	var puts []app.PutRecord
	storage := app.RecordingStorage(app.NewFsStorage(job.Dir, false), &puts)
	shared := app.NewShared(job.App)
	sessions := make([]*app.Session, len(job.Sessions))
	for i, id := range job.Sessions {
		s := app.NewSession(shared, app.Mode{Kind: "persist", Backend: "fs"}, storage)
		s.Cfg.SessionId = id
		sessions[i] = s
	}
	enc := json.NewEncoder(os.Stdout)
	older := map[int][]byte{} // per session: its record as it was before its previous request
	for n, r := range job.Requests {
		if r.Legacy {
			id := job.Sessions[r.Session]
			os.Rename(filepath.Join(job.Dir, "@"+id), filepath.Join(job.Dir, id))
		}
		if r.LegacyCopy {
			// the legacy-named file is a generation older than the current record
			id := job.Sessions[r.Session]
			if b, ok := older[r.Session]; ok {
				os.WriteFile(filepath.Join(job.Dir, id), b, 0o600)
			}
		}
		if b, err := os.ReadFile(filepath.Join(job.Dir, "@"+job.Sessions[r.Session])); err == nil {
			older[r.Session] = b
		}
		puts = nil
		marker("begin", n)
		st := sessions[r.Session].Request([]byte(r.Input))
		marker("end", n)
		res := JobResult{N: n, Session: r.Session, Visible: st.Visible(), Finish: st.FinishErr, Panic: st.Panic}
		for _, p := range puts {
			if p.Prefix == 16 && p.Key == job.Sessions[r.Session] {
				res.Saved = append(res.Saved, hex.EncodeToString(p.Val))
			}
		}
		enc.Encode(res)
	}
}
