// c12saver serves generated histories in persisted mode over the filesystem backend,
// using only the repository's own code for storage, and brackets every request with
// marker syscalls (stat of a non-existent magic path) so that an strace of this process
// can be cut into per-request file-system operation lists (C12).
package main

import (
	"encoding/json"
	"fmt"
	"io"
	"log"
	"os"

	"verifharness/app"
	"verifharness/refdec"
)

type Job struct {
	App      *app.App     `json:"app"`
	Dir      string       `json:"dir"`
	Sessions []string     `json:"sessions"`
	Requests []JobRequest `json:"requests"`
}

type JobRequest struct {
	Session int       `json:"session"`
	Input   refdec.BS `json:"input"`
}

type JobResult struct {
	N       int    `json:"n"`
	Session int    `json:"session"`
	Visible string `json:"visible"`
	Finish  string `json:"finish_err,omitempty"`
	Panic   string `json:"panic,omitempty"`
}

func marker(kind string, n int) {
	os.Stat(fmt.Sprintf("/verif-marker/%s/%d", kind, n))
}

func main() {
	log.SetOutput(io.Discard)
	b, err := os.ReadFile(os.Args[1])
	if err != nil {
		fmt.Fprintln(os.Stderr, err)
		os.Exit(2)
	}
	var job Job
	if err := json.Unmarshal(b, &job); err != nil {
		fmt.Fprintln(os.Stderr, err)
		os.Exit(2)
	}
	storage := app.NewFsStorage(job.Dir, false)
	shared := app.NewShared(job.App)
	sessions := make([]*app.Session, len(job.Sessions))
	for i, id := range job.Sessions {
		s := app.NewSession(shared, app.Mode{Kind: "persist", Backend: "fs"}, storage)
		s.Cfg.SessionId = id
		sessions[i] = s
	}
	enc := json.NewEncoder(os.Stdout)
	for n, r := range job.Requests {
		marker("begin", n)
		st := sessions[r.Session].Request([]byte(r.Input))
		marker("end", n)
		enc.Encode(JobResult{N: n, Session: r.Session, Visible: st.Visible(), Finish: st.FinishErr, Panic: st.Panic})
	}
}
