package props

// C15, sub "cli": the disassembler tool (dev/disasm) as an executable. The property's
// verdict — a listing for a sequence of complete valid instructions, an error otherwise —
// must survive the way the tool reads its input file, so the built binary runs on
// generated files, among them long ones (tens of KiB up to a few hundred) whose malformed
// part, if any, sits at the very end.

import (
	"bytes"
	"fmt"
	"os"
	"os/exec"
	"path/filepath"
	"strings"
	"testing"

	"git.defalsify.org/vise.git/vm"
	"pgregory.net/rapid"

	"verifharness/refdec"
)

type C15Cli struct {
	Unit   []Instr `json:"unit"`   // repeated to reach the target size
	Target int     `json:"target"` // approximate size in bytes of the valid part
	Tail   string  `json:"tail"`   // none, truncated, opcode, longint
	// More: the command line names a second, well-formed file after this one (whatever the
	// tool makes of further arguments, a malformed program among them is not a success)
	More bool `json:"more,omitempty"`
}

func (c C15Cli) bytes() []byte {
	unit, err := refdec.EncodeAll(c.Unit)
	if err != nil || len(unit) == 0 {
		return nil
	}
	var b []byte
	for len(b) < c.Target {
		b = append(b, unit...)
	}
	switch c.Tail {
	case "truncated":
		one, _ := refdec.Encode(nil, Instr{Op: refdec.MOUT, Sym: "label", Sel: "1"})
		b = append(b, one[:len(one)-2]...)
	case "opcode":
		b = append(b, 0x12, 0x34)
	case "halfopcode":
		b = append(b, 0x00)
	case "longint":
		b = append(b, 0, byte(refdec.LOAD), 1, 'a', 5, 1, 2, 3, 4, 5)
	case "lf", "crlf", "lflf", "nul", "space", "eof":
		// what text tools and transfers leave behind an image: half an opcode or an undefined one
		b = append(b, map[string][]byte{"lf": {0x0a}, "crlf": {0x0d, 0x0a}, "lflf": {0x0a, 0x0a}, "nul": {0x00}, "space": {0x20}, "eof": {0x1a}}[c.Tail]...)
	}
	return b
}

func genC15Cli(t *rapid.T) C15Cli {
	c := C15Cli{Unit: genSlice(t, genInstrText, 1, 6, "unit")}
	c.Target = []int{0, 10, 200, 4000, 4096, 32768, 65000, 65536, 65537, 70000, 131072, 300000}[uniformN(t, 12, "target")]
	if chancePct(t, 40, "exact") {
		// an instruction boundary exactly at a power of two is the interesting place for a
		// buffer limit: make the unit's length divide it
		c.Unit = []Instr{{Op: refdec.HALT}}
	}
	c.Tail = []string{"none", "truncated", "opcode", "halfopcode", "longint", "none", "truncated", "opcode", "halfopcode", "longint", "lf", "crlf", "lflf", "nul", "space", "eof"}[uniformN(t, 16, "tail")]
	c.More = chancePct(t, 15, "more")
	return c
}

func disasmBinary() string { return filepath.Join(os.Getenv("VERIF_BIN"), "disasm") }

func checkC15Cli(c C15Cli) (o Outcome) {
	b := c.bytes()
	if b == nil {
		o.Discard = "unencodable-unit"
		return
	}
	bin := disasmBinary()
	if _, err := os.Stat(bin); err != nil {
		o.Discard = "no-disasm-binary"
		return
	}
	_, _, derr := refdec.DecodeAll(b)
	text, terr := vm.NewParseHandler().WithDefaultHandlers().ToString(append([]byte{}, b...))
	dir, err := os.MkdirTemp(os.Getenv("VERIF_TMP"), "c15cli")
	if err != nil {
		o.Discard = "no-scratch-dir"
		return
	}
	defer os.RemoveAll(dir)
	fp := filepath.Join(dir, "prog.bin")
	if err := os.WriteFile(fp, b, 0o600); err != nil {
		o.Discard = "no-scratch-file"
		return
	}
	cmd := exec.Command(bin, fp)
	if c.More {
		fp2 := filepath.Join(dir, "good.bin")
		good, _ := refdec.EncodeAll([]Instr{{Op: refdec.LOAD, Sym: "foo", Num: 42}, {Op: refdec.MAP, Sym: "foo"}, {Op: refdec.HALT}})
		if err := os.WriteFile(fp2, good, 0o600); err != nil {
			o.Discard = "no-scratch-file"
			return
		}
		cmd = exec.Command(bin, fp, fp2)
	}
	var stdout, stderr bytes.Buffer
	cmd.Stdout, cmd.Stderr = &stdout, &stderr
	rerr := cmd.Run()
	code := 0
	if rerr != nil {
		ee, ok := rerr.(*exec.ExitError)
		if !ok {
			o.Discard = "cannot-run-disasm"
			return
		}
		code = ee.ExitCode()
	}
	desc := fmt.Sprintf("%d bytes (unit %v repeated up to %d, tail %s)", len(b), c.Unit, c.Target, c.Tail)
	if strings.Contains(stderr.String(), "goroutine ") && strings.Contains(stderr.String(), "panic") {
		o.Viol = viol("cli-panic", "dev/disasm panics on %s: %s", desc, oneLine(stderr.String()))
		return
	}
	if code == 0 && derr != nil {
		o.Viol = viol("cli-silent-accept", "dev/disasm exits 0 with %d lines of listing on %s, which is malformed: %v", strings.Count(stdout.String(), "\n"), desc, derr)
		return
	}
	if c.More {
		o.NonTrivial = derr != nil
		o.class("two-files")
		return
	}
	if code == 0 && terr == nil && strings.Count(stdout.String(), "\n") != strings.Count(text, "\n") {
		o.Viol = viol("cli-listing-incomplete", "dev/disasm exits 0 and lists %d instructions of %s, the library's disassembler lists %d", strings.Count(stdout.String(), "\n"), desc, strings.Count(text, "\n"))
		return
	}
	if code != 0 && derr == nil && terr == nil {
		o.Viol = viol("cli-rejects-valid", "dev/disasm fails (exit %d, %s) on %s, which is valid", code, oneLine(stderr.String()), desc)
		return
	}
	o.NonTrivial = derr != nil
	o.class("tail:" + c.Tail)
	switch {
	case len(b) > 65536:
		o.class("size:>64KiB")
	case len(b) > 4096:
		o.class("size:>4KiB")
	default:
		o.class("size:small")
	}
	return
}

var _ = registerReplay("C15", "cli", checkC15Cli)

func runC15Cli(t *testing.T) {
	RunProp(t, "C15", "cli", pick(150, 1500), genC15Cli, checkC15Cli)
}
