package props

// C03 — client input is routed by the first matching INCMP, once.
// C04 — navigation stack and page index follow the documented move table.
//
// Both compare the real engine with the reference interpreter request by request
// (modeldiff_test.go): C03 on position, the ordered log of bytecode fetches (every move
// fetches its target's code, so a second move is seen even when it ends in the same
// place) and the catch page; C04 on position after every request for histories rich in
// descents, ascents, rewinds, repeats and lateral moves.

import (
	"fmt"
	"strings"
	"testing"

	"pgregory.net/rapid"

	"verifharness/app"
	"verifharness/model"
	"verifharness/refdec"
)

type ModelCase struct {
	App    *app.App `json:"app"`
	Inputs []BS     `json:"inputs"`
	Mode   app.Mode `json:"mode"`
	// ClearTerminateAt: request indices before which external code clears TERMINATE (C06/C20)
	ClearTerminateAt []int `json:"clear_terminate_at,omitempty"`
	// BlockAt: request indices before which code outside the VM sets TERMINATE directly on
	// the (halted) session's state — an out-of-band block (C06 blocked-request check only)
	BlockAt []int `json:"block_at,omitempty"`
	// First (C06/C20 blocked-request check only): the engine has a first function
	First bool `json:"first,omitempty"`
	// UseDb: the application is served by resource.DbResource over a memdb
	UseDb bool `json:"use_db,omitempty"`
	// UsePo: templates and labels are served by resource.PoResource over gettext catalogues
	UsePo bool `json:"use_po,omitempty"`
	// Prior (Mode.Reuse): what another session asked before, served through the same
	// persister object
	Prior []BS `json:"prior,omitempty"`
}

var modelModes = []app.Mode{{Kind: "long"}, {Kind: "long"}, {Kind: "persist", Backend: "mem"}, {Kind: "persist", Backend: "mem"}, {Kind: "objects"}}

func genModelHistory(t *rapid.T, a *app.App, maxLen int) []BS {
	h := GenHistory(t, a, HistOpts{MaxLen: maxLen, Junk: true})
	var out []BS
	for _, in := range h {
		if inputAccepted(in) && utf8Valid(in) {
			out = append(out, BS(in))
		}
	}
	if len(out) == 0 {
		out = []BS{""}
	}
	return out
}

// genGuidedHistory draws inputs while running the reference interpreter alongside, so
// that most inputs are selectors the current node actually offers (the literal inputs go
// into the case; a replay needs no model).
func genGuidedHistory(t *rapid.T, a *app.App, maxLen int, persisted bool) []BS {
	m := model.New(a, persisted)
	all := a.Selectors()
	if len(all) == 0 {
		all = []string{"0"}
	}
	out := []BS{""}
	st := m.Request("")
	n := rapid.IntRange(1, maxLen).Draw(t, "histlen")
	for i := 0; i < n; i++ {
		if st.Bail != "" || st.ExecErr || (!st.Cont && !persisted) {
			// the reference stops here (a corner it does not predict, or the end); the
			// checks that need no prediction go on: a few unguided inputs
			if st.Bail != "" && persisted {
				for k := uniformN(t, 6, "aftermath"); k > 0; k-- {
					out = append(out, BS(append([]string{"", "0"}, all...)[uniformN(t, len(all)+2, "aftermathsel")]))
				}
			}
			break
		}
		var offered []string
		for _, in := range m.Pending {
			if in.Op == refdec.HALT {
				break
			}
			if in.Op == refdec.INCMP && in.Sel != "*" {
				offered = append(offered, string(in.Sel))
			}
		}
		var in string
		switch k := uniformN(t, 20, "inkind"); {
		case k < 14 && len(offered) > 0:
			in = offered[uniformN(t, len(offered), "offered")]
		case k < 16:
			in = all[uniformN(t, len(all), "anysel")]
		case k < 17:
			in = ""
		case k < 18:
			in = []string{"11", "22"}[uniformN(t, 2, "browse")]
		case k < 19 && len(offered) > 0:
			// a near miss of an offered selector: other case, one character more or less
			sel := offered[uniformN(t, len(offered), "nearsel")]
			in = []string{swapCase(sel), sel + "0", sel + " ", sel + sel, sel[:len(sel)-1], "0" + sel, sel + "\r", sel + "\t"}[uniformN(t, 8, "nearkind")]
			if !inputAccepted(in) {
				in = sel
			}
		default:
			in = []string{"x", "zz", "99", "+1", "1 2", "0000", "hello world", "7*"}[uniformN(t, 8, "junk")]
		}
		out = append(out, BS(in))
		st = m.Request(in)
	}
	return out
}

var c03Opts = GenOpts{MaxNodes: 4, MultiHalt: true, EchoInput: true, Separators: true, CustomRoot: true, FewSelectors: true}

func genC03(t *rapid.T) ModelCase {
	o := c03Opts
	o.Sinks = chancePct(t, 20, "sinks")
	o.OutputSize = o.Sinks && chancePct(t, 50, "sized")
	o.Langs = chancePct(t, 25, "langs")
	// client flags (also with indices beyond 255) set and reset by the calls around the
	// comparison lines: they are not the flags the comparison itself keeps
	o.Flags = chancePct(t, 25, "flags")
	a := GenApp(t, o)
	modelFriendly(a)
	return ModelCase{App: a, Inputs: genModelHistory(t, a, 8), Mode: modelModes[uniformN(t, len(modelModes), "mode")]}
}

func checkC03(c ModelCase) (o Outcome) {
	asp := diffAspects{position: true, fetches: true, output: true, cont: true}
	v, f, discard := modelDiff(c.App, c.Inputs, c.Mode, asp, nil)
	o.Viol, o.Discard = v, discard
	o.NonTrivial = f.multiMatch || f.wildNotLast || f.noMatch || f.relative
	if f.multiMatch {
		o.class("several-lines-could-match")
	}
	if f.wildNotLast {
		o.class("wildcard-not-last")
	}
	if f.noMatch {
		o.class("no-match->catch")
	}
	if f.relative {
		o.class("relative-target-taken")
	}
	if f.prevAtZero {
		o.class("previous-on-first-page")
	}
	if f.bail != "" {
		o.class("stopped:" + f.bail)
	}
	o.class("mode:" + c.Mode.Kind)
	return
}

var c04Opts = GenOpts{MaxNodes: 5, MultiHalt: true, Flags: true, Sinks: true, OutputSize: true, CustomRoot: true, Errors: true, NoEndNodes: true, RelCatch: true, ResetEmpty: true}

// addPager adds a node whose content certainly spans several pages, reachable from the
// entry node with selector 9, offering next/previous, up, rewind and repeat — so that
// histories leave a node while its page index is above 0.
func addPager(t *rapid.T, a *app.App) {
	rows := 5 + uniformN(t, 8, "pagerrows")
	size := 60 + uniformN(t, 60, "pagersize")
	// three times out of four the output size also has room for the largest page of the
	// other nodes (so that a history is not cut short by a page that does not fit), and the
	// pager's content grows with it so that it still spans several pages
	if chancePct(t, 75, "pagerroomy") {
		if need := roughPageNeed(a) + 10; need > size && need < 4000 {
			size = need
		}
		if r := size*2/13 + 3; r > rows {
			rows = r
		}
	}
	var content []string
	for i := 0; i < rows; i++ {
		content = append(content, fmt.Sprintf("row number %d", i))
	}
	a.Syms = append(a.Syms, app.Sym{Name: "pg", Results: []app.Result{{Content: strings.Join(content, "\n")}}})
	a.Nodes = append(a.Nodes, app.Node{Name: "pager", Tpl: "{{.pg}}", Code: []app.Instr{
		{Op: refdec.LOAD, Sym: "pg", Num: 0}, {Op: refdec.MAP, Sym: "pg"},
		{Op: refdec.MNEXT, Sym: "to_next", Sel: "11"}, {Op: refdec.MPREV, Sym: "to_prev", Sel: "22"}, {Op: refdec.HALT},
		{Op: refdec.INCMP, Sym: ">", Sel: "11"}, {Op: refdec.INCMP, Sym: "<", Sel: "22"}, {Op: refdec.INCMP, Sym: "_", Sel: "0"},
		{Op: refdec.INCMP, Sym: "^", Sel: "1"}, {Op: refdec.INCMP, Sym: ".", Sel: "*"}}})
	a.Cfg.OutputSize = uint32(size)
	// reachable from every node that waits for input: selector 9 right after its first HALT
	for ni := range a.Nodes {
		n := &a.Nodes[ni]
		if n.Name == "pager" || n.Name == "_catch" {
			continue
		}
		for i, in := range n.Code {
			if in.Op == refdec.HALT {
				code := append([]app.Instr{}, n.Code[:i+1]...)
				code = append(code, app.Instr{Op: refdec.INCMP, Sym: "pager", Sel: "9"})
				n.Code = append(code, n.Code[i+1:]...)
				break
			}
		}
	}
}

// roughPageNeed is an upper estimate of the longest page among the application's nodes:
// template text, the longest result of every mapped symbol, every menu line.
func roughPageNeed(a *app.App) int {
	need := 0
	for i := range a.Nodes {
		n := &a.Nodes[i]
		l := len(n.Tpl) + 30
		for _, in := range n.Code {
			switch in.Op {
			case refdec.MAP:
				if sp := a.Sym(string(in.Sym)); sp != nil {
					longest := 0
					for _, r := range sp.Results {
						longest = max(longest, len(r.Content))
					}
					l += longest
				}
			case refdec.MOUT, refdec.MNEXT, refdec.MPREV:
				l += 1 + len(in.Sel) + 4 + len(a.Menus[string(in.Sym)]) + len(in.Sym)
			}
		}
		need = max(need, l)
	}
	return need
}

func genC04(t *rapid.T) ModelCase {
	o := c04Opts
	a := GenApp(t, o)
	// navigation is what is judged here: most of the time the output size leaves room for
	// every page, so that a history is not cut short by a page that does not fit
	if a.Cfg.OutputSize > 0 && chancePct(t, 80, "roomy") {
		if need := roughPageNeed(a) + 10; need > int(a.Cfg.OutputSize) && need < 4000 {
			a.Cfg.OutputSize = uint32(need)
		}
	}
	if chancePct(t, 50, "pager") {
		addPager(t, a)
	}
	modelFriendly(a)
	// a first function with a constant answer (no flags, never failing or refusing): it runs
	// on a level of its own that it leaves again, so the position is the table's all the same
	genFirst(t, a, 25, false)
	mode := modelModes[uniformN(t, len(modelModes), "mode")]
	c := ModelCase{App: a, Mode: mode}
	if mode.Kind == "persist" && chancePct(t, 40, "reuse") {
		// a worker that keeps one persister for all sessions, another session taking turns
		c.Mode.Reuse = []string{"keep", "keep", "flush"}[uniformN(t, 3, "reusekind")]
		c.Prior = genGuidedHistory(t, a, 16, true)
	}
	c.Inputs = genGuidedHistory(t, a, 16, mode.PerRequest())
	return c
}

func checkC04(c ModelCase) (o Outcome) {
	asp := diffAspects{position: true, fetches: true, cont: true}
	v, f, discard := modelDiff(c.App, c.Inputs, c.Mode, asp, &diffHooks{prior: c.Prior})
	o.Viol, o.Discard = v, discard
	if c.Mode.Reuse != "" {
		o.class("reused-persister:" + c.Mode.Reuse)
	}
	if c.App.Cfg.First != nil {
		o.class("first-function")
	}
	o.NonTrivial = f.descents >= 1 && (f.ascents+f.rewinds) >= 1 && f.maxDepth >= 2 && (f.laterals+f.repeats) >= 1
	o.class("depth:%d", min(f.maxDepth, 6))
	if f.laterals > 0 {
		o.class("lateral-move")
	}
	if f.rewinds > 0 {
		o.class("rewind")
	}
	if f.ascents > 0 {
		o.class("ascent")
	}
	if f.failingMoves > 0 {
		o.class("failing-move")
	}
	if f.bail != "" {
		o.class("stopped:" + f.bail)
	}
	return
}

var _ = registerReplay("C03", "model", checkC03)
var _ = registerReplay("C04", "model", checkC04)

func TestC03(t *testing.T) {
	runKnownExamples(t, "C03")
	RunProp(t, "C03", "model", pick(3000, 40000), genC03, checkC03)
}

func TestC04(t *testing.T) {
	runKnownExamples(t, "C04")
	RunProp(t, "C04", "model", pick(3000, 40000), genC04, checkC04)
}
