package props

// C19 — independent sessions can be served concurrently without interference.
//
// sub "sched": harness-owned interleavings (deterministic, shrinkable): a generated
//              sequence of session indices decides whose next request runs
// sub "conc":  the same sessions on real goroutines released by a barrier, repeated,
//              in a binary built with -race
// Oracle: every session's transcript equals the transcript of the same history served
// alone on a private copy of the application; the shared bytecode slices are unchanged;
// no race report, no panic.

import (
	"bytes"
	"encoding/json"
	"fmt"
	"os"
	"os/exec"
	"path/filepath"
	"sync"
	"testing"

	"pgregory.net/rapid"

	"verifharness/app"
	"verifharness/refdec"
)

type C19Case struct {
	App      *app.App `json:"app"`
	Hists    [][]BS   `json:"hists"`
	Schedule []int    `json:"schedule,omitempty"`
	Mode     app.Mode `json:"mode"`
	Reps     int      `json:"reps,omitempty"`
	// Alt: per session, which application data and engine configuration it is served from:
	// 0 the application as is; 1 the same application data under another output size;
	// 2 a second application with the same node names and other template texts
	Alt []int `json:"alt,omitempty"`
	// UsePo: templates and labels are served by ONE resource.PoResource (gettext catalogues)
	// that all sessions of an application share, like the bytecode
	UsePo bool `json:"use_po,omitempty"`
}

// genHubApp builds the shape in which sessions interfere if pending code aliases shared
// data: the entry node jumps with CATCH into a hub node; sessions park there and then
// descend into different nodes, each descent appending that node's code to the buffer.
func genHubApp(t *rapid.T) *app.App {
	leaf := func(name, up string) app.Node {
		code := []app.Instr{{Op: refdec.MOUT, Sym: "la", Sel: "0"}, {Op: refdec.HALT}}
		targets := []string{"_", "^", ".", "hub"}
		n := rapid.IntRange(1, 3).Draw(t, "nleafincmp")
		for i := 0; i < n; i++ {
			tg := targets[uniformN(t, len(targets), "leaftarget")]
			code = append(code, app.Instr{Op: refdec.INCMP, Sym: refdec.BS(tg), Sel: refdec.BS(poolSels[uniformN(t, 3, "leafsel")])})
		}
		code = append(code, app.Instr{Op: refdec.INCMP, Sym: ".", Sel: "*"})
		return app.Node{Name: name, Code: code, Tpl: "this is " + name}
	}
	a := &app.App{Menus: map[string]string{}, Cfg: app.Config{FlagCount: 1}}
	a.Nodes = []app.Node{
		{Name: "root", Code: []app.Instr{{Op: refdec.CATCH, Sym: "hub", Num: 8, Mode: false}, {Op: refdec.HALT}}, Tpl: "root"},
		{Name: "hub", Code: []app.Instr{{Op: refdec.MOUT, Sym: "la", Sel: "1"}, {Op: refdec.HALT},
			{Op: refdec.INCMP, Sym: "foo", Sel: "0"}, {Op: refdec.INCMP, Sym: "bar", Sel: "1"}, {Op: refdec.INCMP, Sym: "baz", Sel: "2"}, {Op: refdec.INCMP, Sym: ".", Sel: "*"}}, Tpl: "hub"},
		leaf("foo", "hub"), leaf("bar", "hub"), leaf("baz", "hub"),
		{Name: "_catch", Code: []app.Instr{{Op: refdec.HALT}, {Op: refdec.INCMP, Sym: "_", Sel: "*"}}, Tpl: "oops"},
	}
	return a
}

func genC19(conc bool) func(t *rapid.T) C19Case {
	return func(t *rapid.T) C19Case {
		o := fullOpts
		o.Sloppy = false
		o.Errors = chancePct(t, 30, "errors")
		var a *app.App
		if chancePct(t, 35, "hubapp") {
			a = genHubApp(t)
		} else {
			a = GenApp(t, o)
		}
		// sessions that pass through a firing CATCH and then append more code are the
		// interesting ones: make sure some CATCH fires unconditionally
		if chancePct(t, 60, "forcecatch") && a.Cfg.FlagCount > 0 {
			root := a.Node(a.RootName())
			var target string
			for _, n := range a.Nodes {
				if n.Name != root.Name && n.Name != "_catch" {
					target = n.Name
					break
				}
			}
			if target != "" {
				root.Code = append([]app.Instr{{Op: refdec.CATCH, Sym: refdec.BS(target), Num: 8, Mode: false}}, root.Code...)
			}
		}
		// the engine's state debugging (flag names in log lines) goes through the
		// process-wide state.FlagDebugger
		a.Cfg.StateDebug = chancePct(t, 30, "statedebug")
		n := rapid.IntRange(2, 6).Draw(t, "nsessions")
		if chancePct(t, 15, "many") {
			n = rapid.IntRange(7, 16).Draw(t, "nsessionsmany")
		}
		c := C19Case{App: a}
		total := 0
		for i := 0; i < n; i++ {
			h := GenHistory(t, a, HistOpts{MaxLen: 6, Junk: true})
			c.Hists = append(c.Hists, toBS(h))
			total += len(h)
		}
		if conc {
			c.Mode = []app.Mode{{Kind: "long"}, {Kind: "persist", Backend: "fs"}, {Kind: "persist", Backend: "mem"}}[uniformN(t, 3, "mode")]
			c.Reps = pick(10, 40)
		} else {
			c.Mode = []app.Mode{{Kind: "long"}, {Kind: "persist", Backend: "fs"}, {Kind: "persist", Backend: "mem"}, {Kind: "persist", Backend: "pg"}}[uniformN(t, 4, "mode")]
			c.Schedule = rapid.SliceOfN(rapid.IntRange(0, n-1), total, total+4).Draw(t, "schedule")
		}
		if len(a.Trans) > 0 && chancePct(t, 40, "usepo") {
			c.UsePo = true
			poFriendly(a)
		}
		if chancePct(t, 35, "alts") {
			for i := 0; i < n; i++ {
				c.Alt = append(c.Alt, uniformN(t, 3, "alt"))
			}
		}
		return c
	}
}

type c19Env struct {
	shared   *app.Shared
	before   map[string][]byte
	second   *app.Shared
	before2  map[string][]byte
	sessions []*app.Session
	cleanup  []func()
}

// newC19Env: all sessions share one Shared (bytecode, templates, labels) and, for the
// fs backend, one store directory; each has its own session id, recorder, resource,
// engine, state, cache and store handle.
func newC19Env(c C19Case, shared *app.Shared, only int) *c19Env {
	e := &c19Env{shared: shared, before: map[string][]byte{}}
	usePo := func(sh *app.Shared) {
		if !c.UsePo {
			return
		}
		dir := workDir()
		e.cleanup = append(e.cleanup, func() { os.RemoveAll(dir) })
		if err := sh.WritePo(dir); err == nil {
			sh.UsePo, sh.PoDir = true, dir
		}
	}
	usePo(shared)
	for k, v := range shared.Code {
		e.before[k] = append([]byte{}, v...)
	}
	var common app.Storage
	if c.Mode.Kind == "persist" && (c.Mode.Backend == "fs" || c.Mode.Backend == "pg") {
		st, cl := newStorage(c.Mode.Backend)
		common = st
		e.cleanup = append(e.cleanup, cl)
	}
	for i := range c.Hists {
		if only >= 0 && i != only {
			e.sessions = append(e.sessions, nil)
			continue
		}
		var st app.Storage
		if c.Mode.Kind == "persist" {
			if common != nil {
				st = common
			} else {
				s2, cl := newStorage(c.Mode.Backend)
				st = s2
				e.cleanup = append(e.cleanup, cl)
			}
		}
		sh := shared
		alt := 0
		if i < len(c.Alt) {
			alt = c.Alt[i]
		}
		if alt == 2 {
			if e.second == nil {
				e.second = app.NewShared(app.SecondApp(c.App))
				usePo(e.second)
				e.before2 = map[string][]byte{}
				for k, v := range e.second.Code {
					e.before2[k] = append([]byte{}, v...)
				}
			}
			sh = e.second
		}
		s := app.NewSession(sh, c.Mode, st)
		if alt == 1 {
			s.Cfg.OutputSize = app.OtherOutputSize(s.Cfg.OutputSize)
		}
		s.Cfg.SessionId = fmt.Sprintf("sess%d", i)
		e.sessions = append(e.sessions, s)
	}
	return e
}

func (e *c19Env) close() {
	for _, f := range e.cleanup {
		f()
	}
}

func (e *c19Env) sharedUnchanged() *Violation {
	for k, v := range e.shared.Code {
		if !bytes.Equal(v, e.before[k]) {
			return viol("shared-data-changed", "the shared bytecode of node %s changed: %x -> %x", k, e.before[k], v)
		}
	}
	if e.second != nil {
		for k, v := range e.second.Code {
			if !bytes.Equal(v, e.before2[k]) {
				return viol("shared-data-changed", "the shared bytecode of node %s (second application) changed: %x -> %x", k, e.before2[k], v)
			}
		}
	}
	return nil
}

func stepEnds(s app.Step) bool {
	return s.Panic != "" || s.Exceeded || !s.Cont || s.ExecErr != "" || s.FlushErr != ""
}

// solo transcripts: each history alone on a private copy of the application.
func c19Solo(c C19Case) [][]app.Step {
	var out [][]app.Step
	for i, h := range c.Hists {
		e := newC19Env(c, app.NewShared(c.App), i)
		var steps []app.Step
		for _, in := range h {
			st := e.sessions[i].Request([]byte(in))
			steps = append(steps, st)
			if stepEnds(st) {
				break
			}
		}
		e.close()
		out = append(out, steps)
	}
	return out
}

// c19FreshProcess compares the sequential transcripts of this (long-running) process with
// the ones a process of its own gives for the same sessions: state the library keeps per
// process — filled in by other sessions or by earlier cases — must not show in any answer.
func c19FreshProcess(c C19Case, solo [][]app.Step) (*Violation, bool) {
	bin := filepath.Join(os.Getenv("VERIF_BIN"), "c19solo")
	if _, err := os.Stat(bin); err != nil {
		return nil, false
	}
	if c.Mode.Kind == "persist" && c.Mode.Backend == "pg" {
		return nil, false // the fake server lives in the test package
	}
	dir := workDir()
	defer os.RemoveAll(dir)
	job := map[string]any{"app": c.App, "hists": c.Hists, "mode": c.Mode, "dir": dir, "alt": c.Alt, "use_po": c.UsePo}
	jb, _ := json.Marshal(job)
	jp := filepath.Join(dir, "job.json")
	os.WriteFile(jp, jb, 0o600)
	cmd := exec.Command(bin, jp)
	var stdout, stderr bytes.Buffer
	cmd.Stdout, cmd.Stderr = &stdout, &stderr
	if err := cmd.Run(); err != nil {
		return nil, false
	}
	var fresh [][]struct {
		Visible string        `json:"visible"`
		Panic   string        `json:"panic"`
		Ends    bool          `json:"ends"`
		After   *app.Snapshot `json:"after"`
	}
	if json.Unmarshal(stdout.Bytes(), &fresh) != nil || len(fresh) != len(solo) {
		return nil, false
	}
	for i := range solo {
		if len(fresh[i]) != len(solo[i]) {
			return viol("fresh-process-differs", "session %d answers %d requests in this process and %d in a process of its own", i, len(solo[i]), len(fresh[i])), true
		}
		for j := range solo[i] {
			a, b := solo[i][j], fresh[i][j]
			if a.Visible() != b.Visible || (a.Panic != "") != (b.Panic != "") {
				return viol("fresh-process-differs", "session %d request %d (%q):\n in this process (after other sessions and cases): %s panic=%q\n in a process of its own: %s panic=%q", i, j, a.Input, a.Visible(), a.Panic, b.Visible, b.Panic), true
			}
		}
	}
	return nil, true
}

func c19Compare(c C19Case, solo, got [][]app.Step, how string) *Violation {
	for i := range c.Hists {
		if len(solo[i]) != len(got[i]) {
			return viol("transcript-length", "session %d served %s answered %d requests, alone %d", i, how, len(got[i]), len(solo[i]))
		}
		for j := range solo[i] {
			a, b := solo[i][j], got[i][j]
			if a.Visible() != b.Visible() || a.Panic != b.Panic {
				return viol("transcripts-differ", "session %d request %d (%q) served %s:\n alone  : %s panic=%q (%s)\n %s: %s panic=%q (%s)", i, j, a.Input, how, a.Visible(), a.Panic, a.ExecErr+a.FlushErr, how, b.Visible(), b.Panic, b.ExecErr+b.FlushErr)
			}
			if d := snapEqual(a.After, b.After); d != "" && !stepEnds(a) {
				return viol("session-differs", "session %d after request %d served %s: %s differs", i, j, how, d)
			}
		}
	}
	return nil
}

func c19Features(c C19Case, solo [][]app.Step) (nontrivial bool, classes []string) {
	// sessions that passed through a CATCH jump (a code fetch that is not the first of
	// its request and follows no INCMP/MOVE is hard to tell from outside; approximate:
	// the application has a CATCH and at least two sessions made >= 2 requests)
	hasCatch := false
	for _, n := range c.App.Nodes {
		for _, in := range n.Code {
			if in.Op == refdec.CATCH {
				hasCatch = true
			}
		}
	}
	multi := 0
	for _, s := range solo {
		if len(s) >= 2 {
			multi++
		}
	}
	if hasCatch {
		classes = append(classes, "app-has-catch")
	}
	classes = append(classes, fmt.Sprintf("sessions:%d", min(len(c.Hists), 8)), "mode:"+c.Mode.Kind+"/"+c.Mode.Backend)
	return hasCatch && multi >= 2, classes
}

func checkC19Sched(c C19Case) (o Outcome) {
	solo := c19Solo(c)
	for _, s := range solo {
		for _, st := range s {
			if st.Exceeded {
				o.Discard = "move-budget"
				return
			}
		}
	}
	e := newC19Env(c, app.NewShared(c.App), -1)
	defer e.close()
	got := make([][]app.Step, len(c.Hists))
	done := make([]bool, len(c.Hists))
	serve := func(i int) {
		if i < 0 || i >= len(c.Hists) || done[i] || len(got[i]) >= len(c.Hists[i]) {
			return
		}
		st := e.sessions[i].Request([]byte(c.Hists[i][len(got[i])]))
		got[i] = append(got[i], st)
		if stepEnds(st) {
			done[i] = true
		}
	}
	for _, i := range c.Schedule {
		serve(i)
	}
	for i := range c.Hists {
		for !done[i] && len(got[i]) < len(c.Hists[i]) {
			serve(i)
		}
	}
	if v := c19Compare(c, solo, got, "interleaved"); v != nil {
		o.Viol = v
		return
	}
	if v := e.sharedUnchanged(); v != nil {
		o.Viol = v
		return
	}
	// one case in eight also against a process of its own (chosen by the case's content, so
	// that a replay makes the same choice)
	if jb, _ := json.Marshal(c.Hists); hash64(jb)%8 == 0 {
		if v, ran := c19FreshProcess(c, solo); v != nil {
			o.Viol = v
			return
		} else if ran {
			o.class("compared-with-a-fresh-process")
		}
	}
	nt, cl := c19Features(c, solo)
	o.NonTrivial = nt
	o.Classes = append(o.Classes, cl...)
	return
}

func checkC19Conc(c C19Case) (o Outcome) {
	reps := c.Reps
	if reps < 1 {
		reps = 1
	}
	// the first concurrent run comes BEFORE the sequential reference: whatever the library
	// fills in on first use (a memo, a lazily built table) is then still cold, and two
	// sessions race for it the way they would in a fresh server process
	var solo [][]app.Step
	for r := 0; r < reps; r++ {
		e := newC19Env(c, app.NewShared(c.App), -1)
		got := make([][]app.Step, len(c.Hists))
		var wg sync.WaitGroup
		start := make(chan struct{})
		for i := range c.Hists {
			wg.Add(1)
			go func(i int) {
				defer wg.Done()
				<-start
				for _, in := range c.Hists[i] {
					st := e.sessions[i].Request([]byte(in))
					got[i] = append(got[i], st)
					if stepEnds(st) {
						break
					}
				}
			}(i)
		}
		close(start)
		wg.Wait()
		if solo == nil {
			solo = c19Solo(c)
			for _, s := range solo {
				for _, st := range s {
					if st.Exceeded {
						e.close()
						o.Discard = "move-budget"
						return
					}
				}
			}
		}
		v := c19Compare(c, solo, got, "concurrently")
		if v == nil {
			v = e.sharedUnchanged()
		}
		e.close()
		if v != nil {
			// schedule-dependent: print the history ourselves (rapid cannot replay it)
			fmt.Printf("C19 concurrent failure in repetition %d: %s\n", r, v.Msg)
			o.Viol = v
			return
		}
	}
	if v, ran := c19FreshProcess(c, solo); v != nil {
		o.Viol = v
		return
	} else if ran {
		o.class("compared-with-a-fresh-process")
	}
	nt, cl := c19Features(c, solo)
	o.NonTrivial = nt
	o.Classes = append(o.Classes, cl...)
	return
}

var _ = registerReplay("C19", "sched", checkC19Sched)
var _ = registerReplay("C19", "conc", checkC19Conc)

func TestC19(t *testing.T) {
	runKnownExamples(t, "C19")
	// the concurrent sub-check goes first: state that is filled in on first use (a memo, a
	// lazily built table) is only raced for while it is still cold in this process
	RunProp(t, "C19", "conc", pick(60, 600), genC19(true), checkC19Conc)
	if t.Failed() {
		return
	}
	RunProp(t, "C19", "sched", pick(600, 6000), genC19(false), checkC19Sched)
}
