package props

// C01 — every rendered page fits the configured output size.
//
// sub "page":   render.Page set-ups (shared with C02): bound, exactness of pages without
//               sink (no silent truncation), admissible row group for pages with sink,
//               "cannot fit" => error
// sub "engine": generated applications with an output size x histories that browse,
//               mistype, hit LOADFAIL and end sessions: every string the engine hands to
//               the client is within the size

import (
	"encoding/json"
	"testing"

	"pgregory.net/rapid"

	"verifharness/app"
	"verifharness/refdec"
)

type C01Case struct {
	App    *app.App `json:"app"`
	Inputs []BS     `json:"inputs"`
	Mode   app.Mode `json:"mode"`
}

func genC01Engine(t *rapid.T) C01Case {
	o := fullOpts
	o.Sloppy = false
	a := GenApp(t, o)
	if a.Cfg.OutputSize == 0 {
		a.Cfg.OutputSize = uint32(rapid.IntRange(10, 160).Draw(t, "forcedsize"))
	}
	// a CROAK that fires while input is being handled (after the INCMP lines, before a
	// closing wildcard): the session is purged and goes to the catch node, and is then
	// browsed on
	if chancePct(t, 15, "croak") {
		if a.Cfg.FlagCount == 0 {
			a.Cfg.FlagCount = 1
		}
		var cands []int
		for i, n := range a.Nodes {
			if n.Name != "_catch" && len(n.Code) > 0 {
				for _, in := range n.Code {
					if in.Op == refdec.HALT {
						cands = append(cands, i)
						break
					}
				}
			}
		}
		if len(cands) > 0 {
			nd := &a.Nodes[cands[uniformN(t, len(cands), "croaknode")]]
			code := nd.Code
			at := len(code)
			if last := code[len(code)-1]; last.Op == refdec.INCMP && last.Sel == "*" {
				at = len(code) - 1
			}
			croak := app.Instr{Op: refdec.CROAK, Num: 8, Mode: false}
			nd.Code = append(append(append([]app.Instr{}, code[:at]...), croak), code[at:]...)
		}
	}
	// a first function that turns one of the first requests away with a message of its own
	if chancePct(t, 15, "first") {
		a.Cfg.First = &app.First{Content: genText(t, "firstmsg", 4), StopAt: []int{uniformN(t, 3, "stopat")}}
	}
	c := C01Case{App: a, Inputs: toBS(GenHistory(t, a, HistOpts{MaxLen: 10, Junk: true}))}
	c.Mode = []app.Mode{{Kind: "long"}, {Kind: "persist", Backend: "mem"}}[uniformN(t, 2, "mode")]
	return c
}

func checkC01Engine(c C01Case) (o Outcome) {
	size := int(c.App.Cfg.OutputSize)
	if size == 0 {
		o.Discard = "no-output-size"
		return
	}
	var st app.Storage
	if c.Mode.Kind != "long" {
		st, _ = newStorage(c.Mode.Backend)
	}
	s := app.NewSession(app.NewShared(c.App), c.Mode, st)
	nearLimit, multi, prefixed := false, false, false
	for i, in := range c.Inputs {
		if !inputAccepted(string(in)) {
			continue
		}
		step := s.Request([]byte(in))
		if step.Exceeded {
			o.Discard = "move-budget"
			return
		}
		if step.Panic != "" {
			break // C08's business
		}
		if len(step.Out) > size {
			ending := !step.Cont && step.ExecErr == ""
			if ending && tolerate("F-C01-1") {
				o.Tolerated = append(o.Tolerated, "F-C01-1")
			} else {
				o.Viol = viol("oversize-output", "request %d (%q): the engine emitted %d bytes with output size %d: %q", i, in, len(step.Out), size, step.Out)
				if ending {
					o.Viol.Detail = "session-end"
				}
				return
			}
		}
		if len(step.Out)+8 >= size {
			nearLimit = true
		}
		if step.After != nil && step.After.Idx > 0 {
			multi = true
		}
		if len(step.Out) > 14 && step.Out[:14] == "invalid input:" {
			prefixed = true
		}
		if step.ExecErr != "" || !step.Cont {
			// (a request turned away by the first function does not end anything: the
			// engine is asked again)
			turnedAway := false
			if f := c.App.Cfg.First; f != nil && step.ExecErr == "" {
				for _, at := range f.StopAt {
					if at == len(s.FirstSeen)-1 && len(step.Calls) == 0 {
						turnedAway = true
					}
				}
			}
			if c.Mode.Kind == "long" && !turnedAway {
				break
			}
		}
	}
	o.NonTrivial = nearLimit || multi || prefixed
	if multi {
		o.class("browsed")
	}
	if prefixed {
		o.class("error-prefix")
	}
	if nearLimit {
		o.class("within-8-bytes-of-limit")
	}
	return
}

func init() {
	knownPredicates["c01-exit-value-after-size-check"] = func(sub string, raw json.RawMessage, v *Violation) bool {
		return v.Kind == "oversize-output" && v.Detail == "session-end"
	}
}

var _ = registerReplay("C01", "engine", checkC01Engine)

func TestC01(t *testing.T) {
	runKnownExamples(t, "C01")
	RunProp(t, "C01", "page", pick(4000, 60000), func(t *rapid.T) PageCase {
		return genPageCase(t, pageGenOpts{emptyRows: chancePct(t, 10, "emptyrows")})
	}, checkC01Page)
	if t.Failed() {
		return
	}
	RunProp(t, "C01", "engine", pick(800, 6000), genC01Engine, checkC01Engine)
}
