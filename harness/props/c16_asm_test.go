package props

// C16 — the assembler emits exactly the instructions that were written.
//
// A structured program is rendered to assembly text by the harness (with formatting
// noise); the expected instruction list comes from the structure — an independent
// reading of the source, including the documented batch expansion — and is compared
// with what the strict reference decoder finds in the bytes asm.Parse emitted.

import (
	"bytes"
	"encoding/json"
	"fmt"
	"io"
	"regexp"
	"strings"
	"testing"

	"git.defalsify.org/vise.git/asm"
	"pgregory.net/rapid"

	"verifharness/refdec"
)

type AsmLine struct {
	Kind    string `json:"kind"` // ins batch blank comment
	Ins     *Instr `json:"ins,omitempty"`
	Batch   string `json:"batch,omitempty"` // DOWN UP NEXT PREVIOUS
	Sym     string `json:"sym,omitempty"`   // DOWN target
	Sel     string `json:"sel,omitempty"`
	Label   string `json:"label,omitempty"`
	Sep     string `json:"sep,omitempty"`      // separator between tokens
	Trail   string `json:"trail,omitempty"`    // trailing white space
	Comment string `json:"comment,omitempty"`  // trailing or whole-line comment text (without #)
	After   string `json:"after,omitempty"`    // extra line breaks after the line (blank lines)
	NumText string `json:"num_text,omitempty"` // how the size/signal is written (default: plain decimal); the value meant is Ins.Num
}

type C16Case struct {
	Lines []AsmLine `json:"lines"`
	// Pre: sources assembled (and discarded) before, in the same process — usually one the
	// assembler must reject inside an instruction (an over-long symbol): the assembler
	// keeps no state between calls, so what came before must not matter
	Pre []string `json:"pre,omitempty"`
	// PreSinkFails: the earlier parses write to a sink that fails after that many bytes
	// (0: none does); a failed output is the caller's problem, not the next caller's
	PreSinkFails int `json:"pre_sink_fails,omitempty"`
}

var reSelLeadingZero = regexp.MustCompile(`^0[0-9]+$`)
var reSelDigitThenAlpha = regexp.MustCompile(`^[0-9]+[a-zA-Z][a-zA-Z0-9]*$`)

// selector shapes of known finding F-C16-1
func knownBadSelector(s string) bool {
	return reSelLeadingZero.MatchString(s) || reSelDigitThenAlpha.MatchString(s)
}

// Two source dialects are generated. "clean": only shapes the assembler is observed to
// accept (lower-case-leading symbols, no comment-only or white-space-only lines, no
// leading blank line) — so that most generated programs are assembled and compared.
// "full": everything the documented grammar allows, including upper-case-leading
// symbols (the lexer takes them for a mnemonic and rejects the source), comment-only
// and blank lines anywhere (rejected as well). A wrong output is a violation in either
// dialect; a rejection is only counted.
type asmGens struct {
	sym, node, sel *rapid.Generator[string]
	full           bool
}

func newAsmGens(full bool) asmGens {
	var g asmGens
	g.full = full
	syms := []*rapid.Generator[string]{
		rapid.StringMatching(`[a-z][a-zA-Z0-9_]{0,8}`),
		rapid.StringMatching(`[a-z][a-z0-9_]{0,3}`),
		rapid.SampledFrom([]string{"foo", "bar", "baz", "a", "b", "x_1", "to_foo", "fooBar"}),
	}
	sels := []*rapid.Generator[string]{
		rapid.Just("*"),
		rapid.StringMatching(`[0-9]{1,3}`),
		rapid.StringMatching(`[1-9][0-9]{0,8}`),
		rapid.StringMatching(`[a-z][a-z0-9]{0,4}`),
		rapid.StringMatching(`[a-z][a-zA-Z0-9]{0,4}`),
		rapid.SampledFrom([]string{"0", "1", "9", "10", "00", "01", "007", "1a", "a1", "aB", "11", "22", "x", "4294967295"}),
		// numbers at the edges of decimal and binary widths
		rapid.SampledFrom([]string{"10", "100", "1000", "10000", "100000", "1000000", "10000000", "100000000", "1000000000",
			"99", "999", "9999", "99999", "999999", "9999999", "99999999", "999999999", "255", "256", "65535", "65536",
			"16777215", "16777216", "2147483647", "2147483648", "4294967295"}),
	}
	if full {
		syms = append(syms, rapid.StringMatching(`[a-zA-Z][a-zA-Z0-9_]{0,8}`), rapid.SampledFrom([]string{"LOAD", "Foo", "F", "HALT"}))
		sels = append(sels, rapid.StringMatching(`[a-zA-Z0-9]{1,5}`), rapid.SampledFrom([]string{"1A", "A1", "4294967296", "99999999999"}))
	}
	short := rapid.OneOf(syms...)
	g.sym = rapid.Custom(func(t *rapid.T) string {
		if chancePct(t, 5, "longsym") {
			// up to the 255 bytes an argument can have
			n := []int{40, 64, 127, 128, 200, 254, 255}[uniformN(t, 7, "longsymlen")]
			return (short.Draw(t, "longsymhead") + strings.Repeat(string(rune('a'+uniformN(t, 26, "longsymfill"))), n))[:n]
		}
		return short.Draw(t, "sym")
	})
	g.node = rapid.OneOf(g.sym, g.sym, rapid.SampledFrom([]string{"_", ".", "^", ">", "<", "_catch"}))
	g.sel = rapid.OneOf(sels...)
	return g
}

var asmClean = newAsmGens(false)
var asmFull = newAsmGens(true)

func genAsmNoise(t *rapid.T, l *AsmLine) {
	l.Sep = rapid.SampledFrom([]string{" ", " ", " ", "  ", "\t", " \t "}).Draw(t, "sep")
	l.Trail = rapid.SampledFrom([]string{"", "", "", " ", "\t"}).Draw(t, "trail")
	l.After = rapid.SampledFrom([]string{"", "", "", "", "\n", "\n\n", "\r\n"}).Draw(t, "after")
	if rapid.IntRange(0, 4).Draw(t, "hascomment") == 0 {
		l.Comment = rapid.SampledFrom([]string{" ", " a comment", "LOAD foo 1", " 12 # x", "\"quoted\""}).Draw(t, "comment")
	}
}

func (g asmGens) ins(t *rapid.T) AsmLine {
	op := uint16(rapid.IntRange(1, 12).Draw(t, "op"))
	in := Instr{Op: op}
	switch op {
	case refdec.CATCH:
		in.Sym = refdec.BS(g.node.Draw(t, "node"))
		in.Num = genU32(t, "sig")
		in.Mode = rapid.Bool().Draw(t, "mode")
	case refdec.CROAK:
		in.Num = genU32(t, "sig")
		in.Mode = rapid.Bool().Draw(t, "mode")
	case refdec.LOAD:
		in.Sym = refdec.BS(g.sym.Draw(t, "sym"))
		in.Num = genU32(t, "size")
	case refdec.RELOAD, refdec.MAP:
		in.Sym = refdec.BS(g.sym.Draw(t, "sym"))
	case refdec.MOVE:
		in.Sym = refdec.BS(g.node.Draw(t, "node"))
	case refdec.INCMP:
		in.Sym = refdec.BS(g.node.Draw(t, "node"))
		in.Sel = refdec.BS(g.sel.Draw(t, "sel"))
	case refdec.MOUT, refdec.MNEXT, refdec.MPREV:
		in.Sym = refdec.BS(g.sym.Draw(t, "label"))
		in.Sel = refdec.BS(g.sel.Draw(t, "sel"))
	}
	l := AsmLine{Kind: "ins", Ins: &in}
	genAsmNoise(t, &l)
	if strings.Contains(refdec.Shape(op), "i") && chancePct(t, 6, "leadingzero") {
		// a number written with leading zeros still means that decimal number
		l.NumText = strings.Repeat("0", 1+uniformN(t, 2, "nzeros")) + fmt.Sprint(in.Num)
	}
	return l
}

func (g asmGens) batch(t *rapid.T) AsmLine {
	l := AsmLine{Kind: "batch"}
	l.Batch = rapid.SampledFrom([]string{"DOWN", "DOWN", "UP", "NEXT", "PREVIOUS"}).Draw(t, "batch")
	if l.Batch == "DOWN" {
		l.Sym = g.sym.Draw(t, "target")
	}
	l.Sel = g.sel.Draw(t, "sel")
	l.Label = g.sym.Draw(t, "label")
	genAsmNoise(t, &l)
	return l
}

func genAsmFiller(t *rapid.T) AsmLine {
	if rapid.Bool().Draw(t, "blank") {
		return AsmLine{Kind: "blank", Trail: rapid.SampledFrom([]string{"", "", " ", "\t"}).Draw(t, "trail")}
	}
	return AsmLine{Kind: "comment", Comment: rapid.SampledFrom([]string{" just a comment", "", "HALT", " MOVE foo"}).Draw(t, "comment")}
}

func (g asmGens) program(t *rapid.T) C16Case {
	var c C16Case
	c.Lines = rapid.SliceOfN(rapid.Custom(func(t *rapid.T) AsmLine {
		if g.full && rapid.IntRange(0, 7).Draw(t, "filler") == 0 {
			return genAsmFiller(t)
		}
		return g.ins(t)
	}), 0, 10).Draw(t, "body")
	if rapid.IntRange(0, 2).Draw(t, "hasbatch") > 0 {
		nb := 5
		if chancePct(t, 10, "bigbatch") {
			nb = 80 // a long menu: the expansion runs to several hundred bytes
		}
		batch := genSlice(t, rapid.Custom(func(t *rapid.T) AsmLine {
			if g.full && rapid.IntRange(0, 9).Draw(t, "filler") == 0 {
				return genAsmFiller(t)
			}
			return g.batch(t)
		}), 1, nb, "batch")
		c.Lines = append(c.Lines, batch...)
	}
	if len(c.Lines) == 0 {
		c.Lines = []AsmLine{g.ins(t)}
	}
	return c
}

func genC16(t *rapid.T) C16Case {
	var c C16Case
	if rapid.IntRange(0, 5).Draw(t, "dialect") == 0 {
		c = asmFull.program(t)
	} else {
		c = asmClean.program(t)
	}
	if chancePct(t, 15, "pre") {
		long := strings.Repeat("x", 256+uniformN(t, 50, "overlong"))
		c.Pre = append(c.Pre, []string{
			"LOAD foo 1\nINCMP foo " + long + "\nHALT\n",
			"MOUT " + long + " 1\n",
			"HALT\nCATCH " + long + " 8 1\n",
			"LOAD " + long + " 12\n",
			"MNEXT fwd " + long + "\nMOVE foo\n",
			"DOWN foo 1 " + long + "\n",
		}[uniformN(t, 6, "prekind")])
	}
	if chancePct(t, 12, "prefail") {
		// a valid program whose output sink breaks part-way
		c.Pre = append(c.Pre, "LOAD foo 42\nMAP foo\nMOUT back 0\nHALT\nINCMP _ 0\nINCMP xyzzy *\n")
		c.PreSinkFails = 1 + uniformN(t, 40, "prefailafter")
	}
	return c
}

func (l AsmLine) text() string {
	sep := l.Sep
	if sep == "" {
		sep = " "
	}
	var toks []string
	switch l.Kind {
	case "blank":
		return l.Trail + "\n"
	case "comment":
		return "#" + l.Comment + "\n"
	case "batch":
		toks = append(toks, l.Batch)
		if l.Batch == "DOWN" {
			toks = append(toks, l.Sym)
		}
		toks = append(toks, l.Sel, l.Label)
	case "ins":
		in := l.Ins
		toks = append(toks, refdec.Names[in.Op])
		for i, c := range refdec.Shape(in.Op) {
			switch c {
			case 's':
				if i == 0 {
					toks = append(toks, string(in.Sym))
				} else {
					toks = append(toks, string(in.Sel))
				}
			case 'i':
				if l.NumText != "" {
					toks = append(toks, l.NumText)
				} else {
					toks = append(toks, fmt.Sprint(in.Num))
				}
			case 'm':
				if in.Mode {
					toks = append(toks, "1")
				} else {
					toks = append(toks, "0")
				}
			}
		}
	}
	s := strings.Join(toks, sep) + l.Trail
	if l.Comment != "" {
		s += " #" + l.Comment
	}
	return s + "\n" + l.After
}

func (c C16Case) source() string {
	var sb strings.Builder
	for _, l := range c.Lines {
		sb.WriteString(l.text())
	}
	return sb.String()
}

// expected reads the structure: one instruction per instruction line, and the
// documented expansion of the batch lines (doc/texinfo/instructions.texi, "Batch menu
// expansion"): all menu declarations, HALT, then one INCMP per batch line, in order.
func (c C16Case) expected() []Instr {
	var out, pre, post []Instr
	for _, l := range c.Lines {
		switch l.Kind {
		case "ins":
			out = append(out, *l.Ins)
		case "batch":
			switch l.Batch {
			case "DOWN":
				pre = append(pre, Instr{Op: refdec.MOUT, Sym: refdec.BS(l.Label), Sel: refdec.BS(l.Sel)})
				post = append(post, Instr{Op: refdec.INCMP, Sym: refdec.BS(l.Sym), Sel: refdec.BS(l.Sel)})
			case "UP":
				pre = append(pre, Instr{Op: refdec.MOUT, Sym: refdec.BS(l.Label), Sel: refdec.BS(l.Sel)})
				post = append(post, Instr{Op: refdec.INCMP, Sym: "_", Sel: refdec.BS(l.Sel)})
			case "NEXT":
				pre = append(pre, Instr{Op: refdec.MNEXT, Sym: refdec.BS(l.Label), Sel: refdec.BS(l.Sel)})
				post = append(post, Instr{Op: refdec.INCMP, Sym: ">", Sel: refdec.BS(l.Sel)})
			case "PREVIOUS":
				pre = append(pre, Instr{Op: refdec.MPREV, Sym: refdec.BS(l.Label), Sel: refdec.BS(l.Sel)})
				post = append(post, Instr{Op: refdec.INCMP, Sym: "<", Sel: refdec.BS(l.Sel)})
			}
		}
	}
	if len(pre) > 0 {
		out = append(out, pre...)
		out = append(out, Instr{Op: refdec.HALT})
		out = append(out, post...)
	}
	return out
}

func (c C16Case) selectors() []string {
	var s []string
	for _, l := range c.Lines {
		switch l.Kind {
		case "ins":
			if l.Ins.Sel != "" {
				s = append(s, string(l.Ins.Sel))
			}
		case "batch":
			s = append(s, l.Sel)
		}
	}
	return s
}

func (c C16Case) hasLeadingZeroNumber() bool {
	for _, l := range c.Lines {
		if l.Kind == "ins" && l.NumText != "" {
			return true
		}
	}
	return false
}

func (c C16Case) hasKnownBadSelector() bool {
	for _, s := range c.selectors() {
		if knownBadSelector(s) {
			return true
		}
	}
	return false
}

func checkC16(c C16Case) (o Outcome) {
	src := c.source()
	want := c.expected()
	for _, pre := range c.Pre {
		var sink io.Writer = &bytes.Buffer{}
		if c.PreSinkFails > 0 {
			sink = &failingWriter{after: c.PreSinkFails - 1}
			o.class("with-earlier-failed-output")
		}
		if p := catchPanic(func() { asm.Parse(pre, sink) }); p != nil {
			o.Viol = &Violation{Kind: "asm-panic", Msg: fmt.Sprintf("asm.Parse panics on %q: %s", pre, p.val), Detail: p.stack}
			return
		}
		o.class("with-earlier-parse")
	}
	var out bytes.Buffer
	var perr error
	if p := catchPanic(func() { _, perr = asm.Parse(src, &out) }); p != nil {
		o.Viol = &Violation{Kind: "asm-panic", Msg: fmt.Sprintf("asm.Parse panics on %q: %s", src, p.val), Detail: p.stack}
		return
	}
	nbatch, nsel := 0, 0
	for _, l := range c.Lines {
		if l.Kind == "batch" {
			nbatch++
		}
	}
	for _, s := range c.selectors() {
		if !regexp.MustCompile(`^(0|[1-9][0-9]*)$`).MatchString(s) {
			nsel++
		}
	}
	big := false
	for _, in := range want {
		if strings.Contains(refdec.Shape(in.Op), "i") && in.Num >= 1<<16 {
			big = true
		}
	}
	if perr != nil {
		o.class("rejected")
		// rejection is not a violation (the property speaks about bytecode that is
		// produced); report which token shapes get rejected
		for _, l := range c.Lines {
			if l.Kind == "ins" {
				for _, s := range []string{string(l.Ins.Sym), string(l.Ins.Sel)} {
					if s != "" && s[0] >= 'A' && s[0] <= 'Z' {
						o.class("rejected:has-uppercase-leading-token")
						return
					}
				}
			}
		}
		o.class("rejected:other")
		return
	}
	o.class("assembled")
	got, _, derr := refdec.DecodeAll(out.Bytes())
	if derr != nil {
		o.Viol = viol("asm-malformed-output", "source %q assembled to malformed bytecode %x: %v", src, out.Bytes(), derr)
		return
	}
	if !refdec.Equal(got, want) {
		o.Viol = viol("asm-wrong-output", "source %q assembled to %v, written: %v", src, got, want)
		return
	}
	// canonical encoding: same bytes as the reference encoder
	if ref, err := refdec.EncodeAll(want); err == nil && !bytes.Equal(ref, out.Bytes()) {
		o.Viol = viol("asm-noncanonical", "source %q assembled to %x, canonical encoding %x", src, out.Bytes(), ref)
		return
	}
	o.NonTrivial = nbatch > 0 || nsel > 0 || big
	if nbatch > 0 {
		o.class("has-batch")
	}
	if nsel > 0 {
		o.class("has-nondecimal-selector")
	}
	return
}

func init() {
	// F-C16-1: digits are lexed as a Size token, so a selector that starts with a digit
	// and is not a plain decimal number is altered or crashes the assembler.
	// The predicate holds when the case has such a selector and the same program with
	// only those selectors replaced by a harmless one assembles correctly — so a second,
	// different defect in the same case is still reported.
	// F-C16-1 / F-C16-2: a predicate holds when the case has its shape and the same program
	// with the shapes of all *listed* known findings repaired (bad selectors replaced by a
	// harmless one, leading-zero numbers written as plain decimals) assembles correctly —
	// so a further, different defect in the same case is still reported.
	repaired := func(c C16Case) C16Case {
		for i := range c.Lines {
			l := &c.Lines[i]
			if isKnown("F-C16-2") {
				l.NumText = ""
			}
			if !isKnown("F-C16-1") {
				continue
			}
			if l.Kind == "ins" && knownBadSelector(string(l.Ins.Sel)) {
				in := *l.Ins
				in.Sel = "z"
				l.Ins = &in
			}
			if l.Kind == "batch" && knownBadSelector(l.Sel) {
				l.Sel = "z"
			}
		}
		return c
	}
	knownPredicates["c16-leading-zero-number"] = func(sub string, raw json.RawMessage, v *Violation) bool {
		var c C16Case
		if json.Unmarshal(raw, &c) != nil || !c.hasLeadingZeroNumber() {
			return false
		}
		return checkC16(repaired(c)).Viol == nil
	}
	knownPredicates["c16-digit-leading-selector"] = func(sub string, raw json.RawMessage, v *Violation) bool {
		var c C16Case
		if json.Unmarshal(raw, &c) != nil || !c.hasKnownBadSelector() {
			return false
		}
		return checkC16(repaired(c)).Viol == nil
	}
}

var _ = registerReplay("C16", "src", checkC16)

func TestC16(t *testing.T) {
	runKnownExamples(t, "C16")
	RunProp(t, "C16", "src", pick(3000, 25000), genC16, checkC16)
	if t.Failed() {
		return
	}
	runConcC16(t)
	if t.Failed() {
		return
	}
	runC16Cli(t)
}
