package props

// Generator of well-formed vise applications (DESIGN §3.1) and of input histories.

import (
	"fmt"
	"regexp"
	"sort"
	"strings"

	"git.defalsify.org/vise.git/vm"
	"pgregory.net/rapid"

	"verifharness/app"
	"verifharness/refdec"
)

var (
	poolNodes  = []string{"foo", "bar", "baz", "inky", "pinky"}
	poolSyms   = []string{"sa", "sb", "sc", "sd"}
	poolSinks  = []string{"ka", "kb"}
	poolLabels = []string{"la", "lb", "lc", "to_next", "to_prev"}
	poolSels   = []string{"0", "1", "2", "00", "a", "9", "A"}
	poolWords  = []string{"alpha", "bravo", "charlie", "delta", "echo", "foxtrot", "golf", "hotel", "x", "yy", "zzz", "blåbær", "日本"}
)

// GenOpts selects which features a profile exercises.
type GenOpts struct {
	Sinks        bool // zero-size symbols, MSINK, browse menus
	OutputSize   bool // cfg.OutputSize > 0 possible
	CacheSize    bool
	Flags        bool // CATCH/CROAK + FlagSet/FlagReset
	Errors       bool // scripted function errors (LOADFAIL)
	Langs        bool // language switches and translations
	Sloppy       bool // deliberately questionable code: MAP of unloaded symbols, RELOAD before LOAD, unmapped placeholders
	Big          bool // occasionally very long contents (>= 64 KiB)
	CustomRoot   bool
	Separators   bool
	ResetEmpty   bool
	MaxNodes     int
	NoEndNodes   bool // every node ends in a catch-all so sessions do not end by themselves
	MultiHalt    bool // second HALT sections
	ReservedFl   bool // FlagSet/FlagReset lists include reserved indices 0..7
	EchoInput    bool
	InternalSig  bool // CATCH/CROAK on flags 0..5 (only where nothing is compared to a model)
	FewSelectors bool // selector alphabet of three, so duplicate selectors are common
	RelCatch     bool // CATCH lines with relative targets (_ ^) as well
	PostCroak    bool // a CROAK between the INCMP lines and what closes the section: it fires while input is being handled
}

var fullOpts = GenOpts{Sinks: true, OutputSize: true, CacheSize: true, Flags: true, Errors: true, Langs: true, Sloppy: true,
	CustomRoot: true, Separators: true, MaxNodes: 5, MultiHalt: true, ReservedFl: true, EchoInput: true}

type appGen struct {
	t     *rapid.T
	o     GenOpts
	a     *app.App
	names []string // node names in rank order, root first, _catch last
	sizes map[string]uint32
	flags []uint32 // with a large flag count: the few client flags this application uses
}

// clientFlags: every client flag of a small configuration; of a large one a handful
// around the byte boundaries of the index (so that setting and testing the same flag
// stays likely).
func (g *appGen) clientFlags() []uint32 {
	n := int(g.a.Cfg.FlagCount)
	if g.flags != nil || n == 0 {
		return g.flags
	}
	if n <= 24 {
		for i := 0; i < n; i++ {
			g.flags = append(g.flags, uint32(8+i))
		}
		return g.flags
	}
	hot := []uint32{8, 9, 15, 16, 127, 128, 255, 256, 257, 262, 263, 264, 300, 511, 512, 518, 519, uint32(n + 6), uint32(n + 7)}
	var valid []uint32
	for _, f := range hot {
		if int(f) <= n+7 {
			valid = append(valid, f)
		}
	}
	for len(g.flags) < 4 {
		g.flags = append(g.flags, valid[g.draw(len(valid), "hotflag")])
	}
	return g.flags
}

// rapid's integer generators are deliberately biased towards small values and range
// bounds (IntRange(0,99) < 2 holds ~20 % of the time). Feature frequencies need honest
// probabilities, so they are built from fair coin flips (rapid.Bool draws one bit).
var fairBits = rapid.Custom(func(t *rapid.T) int {
	v := 0
	for i := 0; i < 10; i++ {
		v <<= 1
		if rapid.Bool().Draw(t, "b") {
			v |= 1
		}
	}
	return v
})

// uniformN draws from 0..n-1 (n <= 1024) with near-uniform probability; shrinks to 0.
func uniformN(t *rapid.T, n int, label string) int {
	return fairBits.Draw(t, label) * n / 1024
}

// chancePct is true with probability pct/100; shrinks to false.
func chancePct(t *rapid.T, pct int, label string) bool {
	return uniformN(t, 100, label) >= 100-pct
}

// genSlice draws a slice whose length is near-uniform in lo..hi. rapid's own SliceOfN
// has a geometric length distribution (average about lo+5 whatever hi is); here the
// target length comes from fair bits and SliceOfN fills it, so it still shrinks towards
// short slices (the bits shrink to zero, SliceOfN drops elements down to its minimum).
func genSlice[T any](t *rapid.T, gen *rapid.Generator[T], lo, hi int, label string) []T {
	n := lo + uniformN(t, hi-lo+1, label+"len")
	m := n - 2
	if m < lo {
		m = lo
	}
	return rapid.SliceOfN(gen, m, n).Draw(t, label)
}

func (g *appGen) draw(n int, label string) int { return uniformN(g.t, n, label) }
func (g *appGen) chance(pct int, label string) bool {
	return chancePct(g.t, pct, label)
}
func pickS(t *rapid.T, xs []string, label string) string { return rapid.SampledFrom(xs).Draw(t, label) }

func genText(t *rapid.T, label string, maxWords int) string {
	n := rapid.IntRange(0, maxWords).Draw(t, label+"n")
	var w []string
	for i := 0; i < n; i++ {
		w = append(w, pickS(t, poolWords, label))
	}
	return strings.Join(w, " ")
}

func (g *appGen) genContent(sym string, sink bool) string {
	t := g.t
	if sink {
		rows := rapid.IntRange(0, 9).Draw(t, "rows")
		var r []string
		for i := 0; i < rows; i++ {
			r = append(r, fmt.Sprintf("%s%d %s", pickS(t, poolWords, "w"), i, pickS(t, poolWords, "w2")))
		}
		return strings.Join(r, "\n")
	}
	switch g.draw(12, "contentkind") {
	case 0:
		return ""
	case 1:
		return genText(t, "c", 3) + "\n" + genText(t, "c2", 2)
	case 2:
		if g.o.Big && g.chance(30, "big") {
			return strings.Repeat("B", 65536+g.draw(40, "bigextra"))
		}
		return strings.Repeat("L", rapid.IntRange(1, 120).Draw(t, "long"))
	}
	s := genText(t, "c", 3)
	if s == "" {
		s = pickS(t, poolWords, "w")
	}
	return s
}

func (g *appGen) genFlagList(label string) []uint32 {
	if !g.o.Flags || !g.chance(35, label+"has") {
		return nil
	}
	max := int(g.a.Cfg.FlagCount) + 7
	lo := 8
	if g.o.ReservedFl {
		lo = 0
	}
	if max < lo {
		return nil
	}
	n := rapid.IntRange(1, 3).Draw(g.t, label+"n")
	var out []uint32
	for i := 0; i < n; i++ {
		f := uint32(rapid.IntRange(lo, max).Draw(g.t, label))
		if cf := g.clientFlags(); max > 31 && len(cf) > 0 && (f >= 8 || !g.chance(50, label+"reserved")) {
			f = cf[g.draw(len(cf), label+"hot")]
		}
		if f == 7 && !g.o.Langs {
			// LANG together with non-language content: unspecified-4; keep out unless languages are on
			continue
		}
		out = append(out, f)
	}
	return out
}

var langCodesValid = []string{"nor", "nor", "no", "swa", "swa", "sw", "fra", "fr", "fre", "fre", "eng", "en", "ger", "deu", "dut", "zh", "wel", "rum"}
var langCodesBad = []string{"xx", "NOR", "English", "zzz", "", "n0r"}

func (g *appGen) genSym(name string, sink bool) app.Sym {
	t := g.t
	s := app.Sym{Name: name}
	n := rapid.IntRange(1, 3).Draw(t, "nres")
	for i := 0; i < n; i++ {
		r := app.Result{Content: g.genContent(name, sink)}
		if g.o.EchoInput && g.chance(10, "echo") {
			r.Echo = true
		}
		r.FlagSet = g.genFlagList("set")
		r.FlagReset = g.genFlagList("reset")
		if g.o.Errors && g.chance(2, "err") {
			r.Err = true
		}
		s.Results = append(s.Results, r)
	}
	return s
}

// genLangSym scripts a language-switching function.
func (g *appGen) genLangSym(name string) app.Sym {
	t := g.t
	s := app.Sym{Name: name}
	n := rapid.IntRange(1, 3).Draw(t, "nres")
	for i := 0; i < n; i++ {
		var code string
		if g.chance(75, "validlang") {
			code = pickS(t, langCodesValid, "lang")
		} else {
			code = pickS(t, langCodesBad, "badlang")
		}
		r := app.Result{Content: code}
		if g.chance(85, "withflag") {
			r.FlagSet = []uint32{7}
		}
		s.Results = append(s.Results, r)
	}
	return s
}

func (g *appGen) otherNode(self string, minRank int, label string) string {
	var c []string
	for i, n := range g.names {
		if n != self && i >= minRank && n != "_catch" {
			c = append(c, n)
		}
	}
	if len(c) == 0 {
		return ""
	}
	return pickS(g.t, c, label)
}

func (g *appGen) rank(name string) int {
	for i, n := range g.names {
		if n == name {
			return i
		}
	}
	return -1
}

func (g *appGen) clientFlag(label string) (uint32, bool) {
	if g.a.Cfg.FlagCount == 0 {
		return 0, false
	}
	cf := g.clientFlags()
	return cf[g.draw(len(cf), label)], true
}

// genSection generates the instructions before a HALT and reports the symbols mapped.
func (g *appGen) genPre(node string, loaded map[string]bool, first bool) (code []app.Instr, mapped []string, hasSink bool, browse bool) {
	t := g.t
	n := rapid.IntRange(0, 5).Draw(t, "npre")
	msink := false
	for i := 0; i < n; i++ {
		switch k := g.draw(21, "prekind"); {
		case k < 7: // LOAD (+MAP)
			sink := g.o.Sinks && g.chance(25, "sink") && !hasSink && !msink
			var sym string
			if sink {
				sym = pickS(t, poolSinks, "sinksym")
			} else {
				sym = pickS(t, poolSyms, "sym")
			}
			size := g.sizes[sym]
			if !sink && g.o.Sinks && g.chance(6, "sizedsink") {
				// a symbol that is the sink of another node, loaded here with a size of its own
				sym = pickS(t, poolSinks, "sizedsinksym")
				size = uint32(rapid.SampledFrom([]int{255, 120, 60}).Draw(t, "sizedsinksize"))
				if g.sizes[sym] == 0 && loaded[sym] {
					size = 0
				}
			}
			if !sink && g.o.Sloppy && g.chance(10, "othersize") {
				size = uint32(rapid.SampledFrom([]int{1, 5, 10, 40, 65535}).Draw(t, "size"))
			}
			code = append(code, app.Instr{Op: refdec.LOAD, Sym: refdec.BS(sym), Num: size})
			loaded[sym] = true
			if g.chance(80, "mapit") {
				code = append(code, app.Instr{Op: refdec.MAP, Sym: refdec.BS(sym)})
				mapped = append(mapped, sym)
				if size == 0 {
					hasSink = true
				}
			}
		case k < 9: // MAP of something loaded earlier (or, sloppy, anything)
			var sym string
			ls := sortedKeys(loaded)
			if len(ls) > 0 && !(g.o.Sloppy && g.chance(10, "mapany")) {
				sym = pickS(t, ls, "mapsym")
			} else if g.o.Sloppy {
				sym = pickS(t, poolSyms, "mapsym2")
			} else {
				continue
			}
			if g.sizes[sym] == 0 && (hasSink || msink) {
				continue
			}
			code = append(code, app.Instr{Op: refdec.MAP, Sym: refdec.BS(sym)})
			mapped = append(mapped, sym)
			if g.sizes[sym] == 0 && loaded[sym] {
				hasSink = true
			}
		case k < 11: // RELOAD + MAP
			ls := sortedKeys(loaded)
			var sym string
			if len(ls) > 0 && !(g.o.Sloppy && g.chance(8, "reloadany")) {
				sym = pickS(t, ls, "reloadsym")
			} else if g.o.Sloppy {
				sym = pickS(t, poolSyms, "reloadsym2")
			} else {
				continue
			}
			if g.sizes[sym] == 0 && (hasSink || msink) {
				continue
			}
			code = append(code, app.Instr{Op: refdec.RELOAD, Sym: refdec.BS(sym)}, app.Instr{Op: refdec.MAP, Sym: refdec.BS(sym)})
			mapped = append(mapped, sym)
			if g.sizes[sym] == 0 && loaded[sym] {
				hasSink = true
			}
		case k < 13: // CATCH
			if !g.o.Flags {
				continue
			}
			f, ok := g.clientFlag("catchflag")
			if g.o.InternalSig && g.chance(15, "internalsig") {
				f, ok = uint32(g.draw(8, "isig")), true
			}
			if !ok {
				continue
			}
			target := g.otherNode(node, g.rank(node)+1, "catchtarget")
			if !first {
				// a later HALT section also runs after one of the preceding INCMP lines
				// matched, i.e. inside that line's target node: a named target could be
				// that very node (a node moving to itself: ill-formed)
				target = ""
			}
			if target == "" || g.chance(15, "catchtocatch") {
				target = "_catch"
				if node == "_catch" {
					continue
				}
			}
			if g.o.RelCatch && node != g.names[0] && g.chance(30, "relcatch") {
				target = pickS(t, []string{"_", "^"}, "relcatchtarget")
			}
			code = append(code, app.Instr{Op: refdec.CATCH, Sym: refdec.BS(target), Num: f, Mode: rapid.Bool().Draw(t, "mode")})
		case k < 14: // CROAK
			if !g.o.Flags || !g.chance(40, "croak") {
				continue
			}
			f, ok := g.clientFlag("croakflag")
			if !ok {
				continue
			}
			code = append(code, app.Instr{Op: refdec.CROAK, Num: f, Mode: g.chance(70, "croakmode")})
		case k < 18: // MOUT
			code = append(code, app.Instr{Op: refdec.MOUT, Sym: refdec.BS(pickS(t, poolLabels[:3], "label")), Sel: refdec.BS(pickS(t, poolSels, "sel"))})
		case k < 19:
			if g.o.Sinks && !hasSink && !msink && g.chance(50, "msink") {
				code = append(code, app.Instr{Op: refdec.MSINK})
				msink = true
				hasSink = true
			}
		default:
			if g.o.Langs {
				code = append(code, app.Instr{Op: refdec.LOAD, Sym: "lang", Num: 0})
				loaded["lang"] = true
			}
		}
	}
	if hasSink || (g.o.Sinks && g.chance(10, "browseanyway")) {
		if g.chance(85, "mnext") {
			code = append(code, app.Instr{Op: refdec.MNEXT, Sym: "to_next", Sel: "11"})
			browse = true
		}
		if g.chance(85, "mprev") {
			code = append(code, app.Instr{Op: refdec.MPREV, Sym: "to_prev", Sel: "22"})
		}
	}
	return
}

func sortedKeys(m map[string]bool) []string {
	var out []string
	for k, v := range m {
		if v {
			out = append(out, k)
		}
	}
	sort.Strings(out)
	return out
}

func (g *appGen) genTarget(node string, label string) string {
	switch k := g.draw(20, label+"kind"); {
	case k < 11:
		if n := g.otherNode(node, 0, label); n != "" {
			return n
		}
		return "."
	case k < 14:
		if node == g.names[0] && g.chance(80, label+"rootup") {
			return "." // '_' at the entry node fails by definition: keep it, but rare
		}
		return "_"
	case k < 15:
		return "^"
	case k < 17:
		return "."
	case k < 18:
		return ">"
	default:
		return "<"
	}
}

// tailTarget picks a move target for code that follows the INCMP lines. That code
// also runs after one of them matched — then already inside the INCMP's target node —
// so a named target that equals one of the section's INCMP targets would be a move of
// a node to itself (ill-formed).
func (g *appGen) tailTarget(node string, incmpTargets map[string]bool, label string) string {
	for i := 0; i < 4; i++ {
		c := g.genTarget(node, fmt.Sprintf("%s%d", label, i))
		if !incmpTargets[c] {
			return c
		}
	}
	return "."
}

// genPost generates the INCMP lines after a HALT and what follows them. exclude holds
// named targets of earlier sections of the same node: a later section also runs inside
// those nodes (the rest of a node's code executes after a matching INCMP, before the
// target's own code), so moving to them again would be a node moving to itself.
func (g *appGen) genPost(node string, loaded map[string]bool, hasSink, browse bool, exclude map[string]bool) (code []app.Instr) {
	t := g.t
	n := rapid.IntRange(0, 5).Draw(t, "nincmp")
	incmpTargets := map[string]bool{}
	for k := range exclude {
		incmpTargets[k] = true
	}
	defer func() {
		for k := range incmpTargets {
			exclude[k] = true
		}
	}()
	// input handling that refreshes (and thereby maps) or maps a symbol before comparing
	// the input: the mapping must not outlive the move of a matching INCMP
	if ls := sortedKeys(loaded); len(ls) > 0 && g.chance(12, "postprelude") {
		op := uint16(refdec.RELOAD)
		if g.chance(30, "postpreludemap") {
			op = refdec.MAP
		}
		code = append(code, app.Instr{Op: op, Sym: refdec.BS(pickS(t, ls, "postpreludesym"))})
	}
	if hasSink && browse {
		code = append(code, app.Instr{Op: refdec.INCMP, Sym: ">", Sel: "11"}, app.Instr{Op: refdec.INCMP, Sym: "<", Sel: "22"})
	}
	for i := 0; i < n; i++ {
		if i > 0 && g.chance(10, "midload") {
			// an external call between two comparison lines: it runs whether or not an earlier
			// line has matched already, and what it sets (language, flags) must not re-open
			// the comparison
			ls := sortedKeys(loaded)
			switch {
			case g.o.Langs && g.chance(50, "midlang"):
				if loaded["lang"] && g.chance(60, "midlangreload") {
					code = append(code, app.Instr{Op: refdec.RELOAD, Sym: "lang"})
				} else {
					code = append(code, app.Instr{Op: refdec.LOAD, Sym: "lang", Num: 0})
				}
			case len(ls) > 0 && g.chance(50, "midreload"):
				code = append(code, app.Instr{Op: refdec.RELOAD, Sym: refdec.BS(pickS(t, ls, "midreloadsym"))})
			default:
				sym := pickS(t, poolSyms, "midsym")
				code = append(code, app.Instr{Op: refdec.LOAD, Sym: refdec.BS(sym), Num: g.sizes[sym]})
			}
		}
		sel := pickS(t, poolSels, "incmpsel")
		if g.o.FewSelectors {
			sel = []string{"0", "a", "A"}[g.draw(3, "incmpselfew")]
		}
		if g.chance(12, "wild") {
			sel = "*"
		}
		target := g.genTarget(node, "target")
		if exclude[target] {
			target = "."
		}
		incmpTargets[target] = true
		code = append(code, app.Instr{Op: refdec.INCMP, Sym: refdec.BS(target), Sel: refdec.BS(sel)})
	}
	if g.o.PostCroak && g.o.Flags && g.chance(16, "postcroak") {
		if f, ok := g.clientFlag("postcroakflag"); ok {
			code = append(code, app.Instr{Op: refdec.CROAK, Num: f, Mode: rapid.Bool().Draw(t, "postcroakmode")})
		}
	}
	// tail
	switch k := g.draw(20, "tail"); {
	case k < 11 || g.o.NoEndNodes:
		wall := pickS(t, []string{".", ".", ".", "_", "^"}, "walltarget")
		if node == g.names[0] {
			wall = "."
		}
		code = append(code, app.Instr{Op: refdec.INCMP, Sym: refdec.BS(wall), Sel: "*"})
	case k < 13:
		if ls := sortedKeys(loaded); len(ls) > 0 {
			code = append(code, app.Instr{Op: refdec.RELOAD, Sym: refdec.BS(pickS(t, ls, "tailreload"))}, app.Instr{Op: refdec.MOVE, Sym: "."})
		}
	case k < 15:
		code = append(code, app.Instr{Op: refdec.MOVE, Sym: refdec.BS(g.tailTarget(node, incmpTargets, "tailmove"))})
	case k < 16:
		if f, ok := g.clientFlag("tailcatch"); ok && g.o.Flags {
			code = append(code, app.Instr{Op: refdec.CATCH, Sym: refdec.BS(g.tailTarget(node, incmpTargets, "tailcatchtarget")), Num: f, Mode: rapid.Bool().Draw(t, "tcmode")})
		}
	}
	return
}

func (g *appGen) genTemplate(mapped []string) string {
	t := g.t
	var sb strings.Builder
	sb.WriteString(genText(t, "tpl", 3))
	use := append([]string{}, mapped...)
	if g.o.Sloppy && g.chance(6, "extraplaceholder") {
		use = append(use, pickS(t, poolSyms, "extra"))
	}
	seen := map[string]bool{}
	for _, m := range use {
		if seen[m] {
			continue
		}
		seen[m] = true
		if g.o.Sloppy && g.chance(8, "dropplaceholder") {
			continue
		}
		sb.WriteString(pickS(t, []string{" ", "\n", ": ", ""}, "tplsep"))
		sb.WriteString("{{." + m + "}}")
		if g.chance(30, "tplafter") {
			sb.WriteString(" " + pickS(t, poolWords, "w"))
		}
	}
	return sb.String()
}

func (g *appGen) genNode(name string) app.Node {
	t := g.t
	nd := app.Node{Name: name}
	loaded := map[string]bool{}
	// action node (no HALT)
	if name != g.names[0] && name != "_catch" && g.chance(10, "actionnode") {
		pre, _, _, _ := g.genPre(name, loaded, true)
		nd.Code = pre
		if !g.chance(25, "deadend") {
			nd.Code = append(nd.Code, app.Instr{Op: refdec.MOVE, Sym: refdec.BS(pickS(t, []string{"_", "_", "^"}, "actiontarget"))})
		}
		nd.Tpl = genText(t, "tpl", 2)
		return nd
	}
	pre, mapped, hasSink, browse := g.genPre(name, loaded, true)
	nd.Code = append(nd.Code, pre...)
	// pre-HALT move to a node of higher rank (the target then carries the HALT)
	if name != "_catch" && g.chance(7, "premove") {
		if target := g.otherNode(name, g.rank(name)+1, "premovetarget"); target != "" {
			nd.Code = append(nd.Code, app.Instr{Op: refdec.MOVE, Sym: refdec.BS(target)})
			nd.Tpl = g.genTemplate(mapped)
			return nd
		}
	}
	nd.Tpl = g.genTemplate(mapped)
	nd.Code = append(nd.Code, app.Instr{Op: refdec.HALT})
	endPct := 8
	if name == g.names[0] {
		endPct = 2
	}
	if !g.o.NoEndNodes && g.chance(endPct, "endafterhalt") {
		return nd // graceful end node
	}
	exclude := map[string]bool{}
	nd.Code = append(nd.Code, g.genPost(name, loaded, hasSink, browse, exclude)...)
	// code that follows a move to a named node runs inside that node (before the node's
	// own code) and stays in the buffer: a further HALT section after such a move would
	// make this node's lines execute as if they were the other node's
	lastNamedMove := false
	for _, in := range nd.Code {
		if (in.Op == refdec.MOVE || in.Op == refdec.CATCH) && len(in.Sym) > 1 {
			lastNamedMove = true
		}
	}
	if g.o.MultiHalt && !lastNamedMove && g.chance(12, "secondhalt") {
		pre2, _, hs2, br2 := g.genPre(name, loaded, false)
		// the node has one template: the second section has to expose the same symbols
		for _, m := range mapped {
			if g.sizes[m] == 0 && hs2 {
				continue
			}
			nd.Code = append(nd.Code, app.Instr{Op: refdec.MAP, Sym: refdec.BS(m)})
		}
		nd.Code = append(nd.Code, pre2...)
		nd.Code = append(nd.Code, app.Instr{Op: refdec.HALT})
		nd.Code = append(nd.Code, g.genPost(name, loaded, hs2, br2, exclude)...)
	}
	return nd
}

func (g *appGen) genCatch() app.Node {
	t := g.t
	nd := app.Node{Name: "_catch", Tpl: pickS(t, []string{"oops", "", "something went wrong", "err"}, "catchtpl")}
	switch g.draw(10, "catchkind") {
	case 0:
		// no bytecode at all: "stuck forever" per the docs
	case 1:
		nd.Code = []app.Instr{{Op: refdec.HALT}}
	case 2, 3:
		nd.Code = []app.Instr{{Op: refdec.MOUT, Sym: "lb", Sel: "0"}, {Op: refdec.HALT}, {Op: refdec.INCMP, Sym: "_", Sel: "0"}, {Op: refdec.INCMP, Sym: "^", Sel: "*"}}
	default:
		nd.Code = []app.Instr{{Op: refdec.HALT}, {Op: refdec.INCMP, Sym: "_", Sel: "*"}}
	}
	return nd
}

var rePlaceholder = regexp.MustCompile(`\{\{\.[a-z]+\}\}`)

// estimatePage gives a rough upper estimate of the page a node renders without its
// sink content (static text, first results of the mapped symbols, menu lines).
func (g *appGen) estimatePage(n *app.Node) int {
	l := len(rePlaceholder.ReplaceAllString(n.Tpl, ""))
	for _, in := range n.Code {
		switch in.Op {
		case refdec.MAP:
			if g.sizes[string(in.Sym)] != 0 {
				if sp := g.a.Sym(string(in.Sym)); sp != nil && len(sp.Results) > 0 {
					l += len(sp.Results[0].Content)
				}
			}
		case refdec.MOUT, refdec.MNEXT, refdec.MPREV:
			l += 1 + len(in.Sel) + 3 + 12
		case refdec.HALT:
			return l + 28
		}
	}
	return l + 20
}

// GenApp draws a well-formed application.
func GenApp(t *rapid.T, o GenOpts) *app.App {
	g := &appGen{t: t, o: o, a: &app.App{Menus: map[string]string{}}, sizes: map[string]uint32{}}
	a := g.a
	if o.MaxNodes == 0 {
		o.MaxNodes = 4
		g.o.MaxNodes = 4
	}
	// config
	if o.Flags {
		a.Cfg.FlagCount = uint32([]int{0, 1, 2, 3, 8, 9, 16, 24}[uniformN(t, 8, "flagcount")])
		if chancePct(t, 12, "manyflags") {
			// flag indices beyond one byte's worth of bits, and beyond 255
			a.Cfg.FlagCount = uint32([]int{120, 248, 249, 256, 300, 600, 1000}[uniformN(t, 7, "flagcountbig")])
		}
	}
	if o.Langs && g.chance(30, "cfglang") {
		a.Cfg.Language = pickS(t, []string{"nor", "eng", "swa"}, "cfglangv")
	}
	if o.Separators && g.chance(30, "sep") {
		a.Cfg.MenuSeparator = pickS(t, []string{". ", ")", " - "}, "sepv")
	}
	if o.CustomRoot && g.chance(10, "customroot") {
		a.Cfg.Root = "start"
	}
	if g.chance(50, "sessionid") {
		a.Cfg.SessionId = pickS(t, []string{"s1", "alice", "x"}, "sid")
	}
	if o.ResetEmpty && g.chance(30, "resetempty") {
		a.Cfg.ResetOnEmptyInput = true
	}
	// the library's state dump after every request: an observer, nothing may depend on it
	a.Cfg.Debugger = g.chance(10, "debugger")
	// names
	nn := rapid.IntRange(1, o.MaxNodes).Draw(t, "nnodes")
	g.names = []string{a.RootName()}
	g.names = append(g.names, poolNodes[:nn]...)
	g.names = append(g.names, "_catch")
	// declared sizes per symbol (one per app, so the same symbol has the same size
	// everywhere unless Sloppy overrides it at a LOAD site)
	// symbols first, so that declared sizes can be chosen relative to what the
	// functions return: usually large enough, sometimes exactly the longest result,
	// sometimes too small (a result over its limit must fail the LOAD)
	for _, s := range poolSyms {
		sp := g.genSym(s, false)
		a.Syms = append(a.Syms, sp)
		longest := 0
		for _, r := range sp.Results {
			l := len(r.Content)
			if r.Echo {
				l += 3
			}
			if l > longest {
				longest = l
			}
		}
		switch k := g.draw(20, "declsize"); {
		case k < 13:
			g.sizes[s] = uint32(longest + rapid.IntRange(1, 30).Draw(t, "slack"))
		case k < 16:
			g.sizes[s] = uint32(max(longest, 1))
		case k < 17:
			g.sizes[s] = uint32(max(longest-1, 1))
		case k < 19:
			g.sizes[s] = 65535
		default:
			g.sizes[s] = uint32(rapid.SampledFrom([]int{1, 5, 10, 20, 40}).Draw(t, "declsizev"))
		}
		if g.sizes[s] > 65535 {
			g.sizes[s] = 65535
		}
	}
	for _, s := range poolSinks {
		a.Syms = append(a.Syms, g.genSym(s, true))
		g.sizes[s] = 0
	}
	if o.Langs {
		a.Syms = append(a.Syms, g.genLangSym("lang"))
	}
	g.sizes["lang"] = 0
	// nodes
	for _, n := range g.names {
		if n == "_catch" {
			a.Nodes = append(a.Nodes, g.genCatch())
		} else {
			a.Nodes = append(a.Nodes, g.genNode(n))
		}
	}
	if o.CacheSize && g.chance(25, "hascachesize") {
		total, firsts := 0, 0
		for _, sp := range a.Syms {
			longest := 0
			for _, r := range sp.Results {
				if len(r.Content) > longest {
					longest = len(r.Content)
				}
			}
			total += longest
			if len(sp.Results) > 0 {
				firsts += len(sp.Results[0].Content)
			}
		}
		switch k := g.draw(10, "cachesizekind"); {
		case k < 2 && total > firsts:
			// room for every symbol's first result but not for every later one: a RELOAD can
			// be refused for capacity while the value it would replace stays
			a.Cfg.CacheSize = uint32(firsts + g.draw(total-firsts, "cachebetween"))
			if a.Cfg.CacheSize == 0 {
				a.Cfg.CacheSize = 1
			}
		case k < 6:
			a.Cfg.CacheSize = uint32(total + rapid.IntRange(1, 100).Draw(t, "cacheslack"))
		case k < 8:
			a.Cfg.CacheSize = uint32(max(1, total/2))
		default:
			a.Cfg.CacheSize = uint32(rapid.SampledFrom([]int{10, 30, 60, 120, 400}).Draw(t, "cachesize"))
		}
	}
	// output size, relative to what the pages need: usually every page without sink
	// fits and sink content has room for a few rows per page; sometimes arbitrary
	if o.OutputSize && g.chance(65, "hasoutsize") {
		need := 0
		for i := range a.Nodes {
			if n := g.estimatePage(&a.Nodes[i]); n > need {
				need = n
			}
		}
		switch k := g.draw(10, "outsizekind"); {
		case k < 6:
			a.Cfg.OutputSize = uint32(need + rapid.IntRange(0, 60).Draw(t, "outslack"))
		case k < 8:
			a.Cfg.OutputSize = uint32(max(1, need+rapid.IntRange(-6, 2).Draw(t, "outtight")))
		default:
			a.Cfg.OutputSize = uint32(rapid.IntRange(1, 300).Draw(t, "outsizev"))
		}
	}
	// labels
	for _, l := range poolLabels {
		if g.chance(60, "labeltext") {
			a.Menus[l] = pickS(t, []string{"go", "back", "next page", "previous", "a longer label text", "x"}, "labelv")
		}
	}
	// translations
	if o.Langs {
		for _, code := range []string{"nor", "swa", "fra"} {
			tr := app.Trans{Lang: code, Templates: map[string]string{}, Menus: map[string]string{}, Statics: map[string]string{}}
			for _, n := range a.Nodes {
				if g.chance(50, "trtpl") {
					tr.Templates[n.Name] = "[" + code + "] " + n.Tpl
				}
			}
			for _, l := range poolLabels {
				if g.chance(50, "trmenu") {
					tr.Menus[l] = code + "-" + l
				}
			}
			for _, s := range poolSyms {
				if g.chance(30, "trstatic") {
					tr.Statics[s] = code + ":" + s
				}
			}
			a.Trans = append(a.Trans, tr)
		}
	}
	return a
}

// genFirst gives the application an engine-level first function (engine.WithFirst) with a
// constant, harmless answer. Only for checks that do not compare with the reference
// interpreter or across serving modes: the function runs whenever an engine object starts
// serving (once for a long-lived engine, at every request of a persisted session).
func genFirst(t *rapid.T, a *app.App, pct int, flags bool) {
	if !chancePct(t, pct, "first") {
		return
	}
	f := &app.First{Content: []string{"", "first", "0"}[uniformN(t, 3, "firstcontent")]}
	if flags && chancePct(t, 30, "firsterr") {
		// (only where flags may be set too, i.e. where nothing is compared across runs)
		f.ErrAt = []int{uniformN(t, 4, "firsterrat")}
	}
	if flags && chancePct(t, 20, "firststop") {
		f.StopAt = []int{uniformN(t, 4, "firststopat")}
	}
	if flags && a.Cfg.FlagCount > 0 && chancePct(t, 40, "firstflag") {
		f.FlagSet = []uint32{8 + uint32(uniformN(t, int(min(a.Cfg.FlagCount, 24)), "firstflagv"))}
	}
	a.Cfg.First = f
}

// ---------------------------------------------------------------------------
// histories

type BS = refdec.BS

func toBS(in []string) []BS {
	out := make([]BS, len(in))
	for i, s := range in {
		out[i] = BS(s)
	}
	return out
}

var inputRegex = regexp.MustCompile(`^\+?[a-zA-Z0-9].*$`)

// inputAccepted mirrors the documented input contract (engine.Exec): empty input is
// accepted, otherwise the input pattern and the 255 byte limit.
func inputAccepted(in string) bool {
	if len(in) > 255 {
		return false
	}
	if in == "" {
		return true
	}
	return inputRegex.MatchString(in) || (customInputRe != nil && customInputRe.MatchString(in))
}

// customInputRe: an additional input format registered with the library for this process
// (engine.AddValidInput / vm.RegisterInputValidator are process-wide and permanent, so only
// the C17 process — check or replay — registers one).
var customInputRe *regexp.Regexp

const customInputFormat = `^#[0-9]{1,3}$`

func enableCustomInputFormat() {
	if customInputRe != nil {
		return
	}
	if err := vm.RegisterInputValidator(0, customInputFormat); err != nil {
		panic(err)
	}
	customInputRe = regexp.MustCompile(customInputFormat)
	// two registrations the library refuses (what a second application in the process, or a
	// typing mistake, produces): a format it returned an error for is not an accepted format,
	// and refusing it leaves the registry usable
	refusedRegistrations = nil
	if err := vm.RegisterInputValidator(0, refusedInputFormat); err == nil {
		refusedRegistrations = append(refusedRegistrations, "a second format under a used key was registered without error")
	}
	if err := vm.RegisterInputValidator(1, `^![a-z+$`); err == nil {
		refusedRegistrations = append(refusedRegistrations, "a malformed expression was registered without error")
	}
}

// refusedInputFormat: registered under the key the first format already has; the library
// refuses the registration, so inputs of this shape stay refused
const refusedInputFormat = `^![a-z]+$`

var refusedRegistrations []string

var junkInputs = []string{"x", "zz", "99", "+1", "1 2", "0000", "hello world", "7*", "11", "22", "0x", "1\x00", "9\xff",
	"1\r", "0\r", "a\r", "1\r\r", "50%", "a%20b", "5%d", "1%s", "9%!", "1%v%v", "a{{.x}}", "0{{", "1\t2", "a\"b", "a'b", "a\\n", "1$", "2^", "0|1", "a(b", "1[0", "x.y", "0?"}

func swapCase(s string) string {
	b := []byte(s)
	for i, c := range b {
		switch {
		case c >= 'a' && c <= 'z':
			b[i] = c - 32
		case c >= 'A' && c <= 'Z':
			b[i] = c + 32
		}
	}
	return string(b)
}

// genJunkInput: an acceptable input (leading letter or digit, no line break) over an
// alphabet of characters that mean something to formatters, templates and patterns.
var genJunkInput = rapid.Custom(func(t *rapid.T) string {
	const lead = "0123456789abzAZ"
	const rest = "%{}.'\"\\ *+?$^[]()|-_:;,/<>=&#@!~019ax\t"
	b := []byte{lead[uniformN(t, len(lead), "lead")]}
	n := 1 + uniformN(t, 6, "junklen")
	for i := 0; i < n; i++ {
		b = append(b, rest[uniformN(t, len(rest), "junkchar")])
	}
	return string(b)
})
var refusedInputs = []string{"!x", " 1", "\n", "+", "+!", "\x001", "\xff\xfe", "-1", "#", "_", ".", "", ""}

type HistOpts struct {
	MaxLen  int
	Refused bool // include inputs the engine must refuse
	Junk    bool
	Long    bool
}

// GenHistory draws client inputs: selectors of the application, browse selectors,
// junk, empty input.
func GenHistory(t *rapid.T, a *app.App, o HistOpts) []string {
	sels := a.Selectors()
	if len(sels) == 0 {
		sels = []string{"0"}
	}
	if o.MaxLen == 0 {
		o.MaxLen = 10
	}
	g := rapid.Custom(func(t *rapid.T) string {
		switch k := rapid.IntRange(0, 19).Draw(t, "inkind"); {
		case k < 12:
			return rapid.SampledFrom(sels).Draw(t, "sel")
		case k < 14:
			return rapid.SampledFrom([]string{"11", "22"}).Draw(t, "browse")
		case k < 15:
			return ""
		case k < 18 && o.Junk:
			if customInputRe != nil && chancePct(t, 20, "customformat") {
				return []string{"#1", "#42", "#007", "#999"}[uniformN(t, 4, "customv")]
			}
			if chancePct(t, 15, "swapcase") {
				// a selector of the application in the other case
				sel := rapid.SampledFrom(sels).Draw(t, "swapsel")
				if sw := swapCase(sel); sw != sel {
					return sw
				}
			}
			if chancePct(t, 30, "genjunk") {
				return genJunkInput.Draw(t, "genjunk")
			}
			return rapid.SampledFrom(junkInputs).Draw(t, "junk")
		case k < 19 && o.Refused:
			s := rapid.SampledFrom(refusedInputs).Draw(t, "refused")
			if s == "" {
				return strings.Repeat("9", []int{256, 257, 300, 400, 256, 300, 65536, 65600}[uniformN(t, 8, "toolong")])
			}
			return s
		case o.Long:
			return strings.Repeat("7", rapid.SampledFrom([]int{254, 255}).Draw(t, "long"))
		}
		return rapid.SampledFrom(sels).Draw(t, "sel2")
	})
	// the first request of a session conventionally carries empty input
	first := ""
	if rapid.IntRange(0, 9).Draw(t, "firstnonempty") == 0 {
		first = g.Draw(t, "first")
	}
	rest := genSlice(t, g, 0, o.MaxLen, "inputs")
	return append([]string{first}, rest...)
}
