package props

// C12 — saving session state to the filesystem store is crash-atomic.
//
// A small program that serves generated histories in persisted mode over db/fs (only the
// repository's code touches the store) runs under strace; the trace between the marker
// syscalls of each request is turned into the list of file-system operations of that
// request, and every prefix of that list — including partial writes — is replayed on an
// in-memory copy of the directory as it was before the request: the directory a process
// death at that point leaves behind.

import (
	"bytes"
	"encoding/hex"
	"encoding/json"
	"fmt"
	"os"
	"os/exec"
	"path/filepath"
	"strings"
	"sync"
	"testing"

	"pgregory.net/rapid"

	"verifharness/app"
	"verifharness/crashfs"
)

type C12Req struct {
	Session int `json:"session"`
	Input   BS  `json:"input"`
	// Legacy: before this request the session's record is moved to its legacy name
	Legacy bool `json:"legacy,omitempty"`
	// LegacyCopy: before this request the session's record is copied to its legacy name
	LegacyCopy bool `json:"legacy_copy,omitempty"`
}

type C12Case struct {
	App      *app.App `json:"app"`
	Sessions []string `json:"sessions"`
	Requests []C12Req `json:"requests"`
	// Shm: the store directory lies on another file system (/dev/shm) than the temporary
	// directory the process is given (TMPDIR): a file cannot be renamed from one to the other
	Shm bool `json:"shm,omitempty"`
}

var infraFailure string

func infra(format string, a ...any) Outcome {
	infraFailure = fmt.Sprintf(format, a...)
	return Outcome{Discard: "infrastructure"}
}

func genC12(t *rapid.T) C12Case {
	o := fullOpts
	o.Sloppy = false
	o.Errors = false
	o.Big = false
	o.OutputSize = chancePct(t, 30, "sized")
	a := GenApp(t, o)
	a.Cfg.SessionId = ""
	c := C12Case{App: a}
	n := 1 + uniformN(t, 3, "nsessions")
	ids := []string{"alice", "bob", "s3"}
	if n > 1 && chancePct(t, 50, "siblingid") {
		// an id that looks like a scratch name derived from another session's id
		ids[1] = ids[0] + []string{".tmp", ".tmp", ".tmp", "~", ".bak", ".new", ".lock", ".swp", "-tmp", ".1", ".old", ".part", "-b", "-2"}[uniformN(t, 14, "suffix")]
		if chancePct(t, 25, "siblingprefix") {
			ids[1] = []string{".tmp-", "tmp", "#", ".#", "_"}[uniformN(t, 5, "prefix")] + ids[0]
		}
	}
	if chancePct(t, 12, "longid") {
		// a session id near the longest file name the file system takes (255 bytes for the
		// record's name): scratch names derived from the record's name no longer fit
		k := uniformN(t, n, "longidwho")
		ids[k] = ids[k] + strings.Repeat("x", []int{225, 232, 236, 238, 240, 241, 242, 243}[uniformN(t, 8, "longidlen")])
	}
	c.Sessions = ids[:n]
	for i := 0; i < n; i++ {
		h := GenHistory(t, a, HistOpts{MaxLen: 5, Junk: true})
		for _, in := range h {
			if utf8Valid(in) {
				c.Requests = append(c.Requests, C12Req{Session: i, Input: BS(in)})
			}
		}
	}
	// interleave the sessions: a generated permutation that keeps each session's order
	if n > 1 {
		var out []C12Req
		idx := make([]int, n)
		per := make([][]C12Req, n)
		for _, r := range c.Requests {
			per[r.Session] = append(per[r.Session], r)
		}
		for len(out) < len(c.Requests) {
			s := uniformN(t, n, "turn")
			for idx[s] >= len(per[s]) {
				s = (s + 1) % n
			}
			out = append(out, per[s][idx[s]])
			idx[s]++
		}
		c.Requests = out
	}
	if len(c.Requests) > 12 {
		c.Requests = c.Requests[:12]
	}
	if chancePct(t, 25, "legacy") && len(c.Requests) > 2 {
		// a store that was written by an older layout: at some point a session's record sits
		// under its legacy name (which the backend still reads, and leaves behind when it saves)
		r := &c.Requests[1+uniformN(t, len(c.Requests)-1, "legacyat")]
		if chancePct(t, 50, "legacycopy") {
			// ... or both names exist: an older version wrote the legacy one, a newer one has
			// saved under the current name since
			r.LegacyCopy = true
		} else {
			r.Legacy = true
		}
	}
	c.Shm = chancePct(t, 25, "shm")
	return c
}

func utf8Valid(s string) bool { return strings.ToValidUTF8(s, "\x00") == s }

type c12Stats struct {
	crashStates, inside, differing, continuations, restarts int
	syscalls                                                map[string]int
}

var pidNsOnce sync.Once
var pidNsOK bool

// pidNamespaces: can a child be given a process id namespace of its own here?
func pidNamespaces() bool {
	pidNsOnce.Do(func() { pidNsOK = exec.Command("unshare", "-pf", "true").Run() == nil })
	return pidNsOK
}

func saverPath() string {
	return filepath.Join(os.Getenv("VERIF_BIN"), "c12saver")
}

func checkC12(c C12Case) (o Outcome) {
	if len(c.Requests) == 0 || len(c.Sessions) == 0 {
		o.Discard = "empty"
		return
	}
	work := workDir()
	defer os.RemoveAll(work)
	dir := filepath.Join(work, "store")
	tmpdir := filepath.Join(work, "tmp")
	os.MkdirAll(tmpdir, 0700)
	if c.Shm {
		if fi, err := os.Stat("/dev/shm"); err != nil || !fi.IsDir() {
			o.Discard = "no-second-file-system"
			return
		}
		shm, err := os.MkdirTemp("/dev/shm", "verif-c12-")
		if err != nil {
			o.Discard = "no-second-file-system"
			return
		}
		defer os.RemoveAll(shm)
		dir = filepath.Join(shm, "store")
		o.class("store-on-another-file-system")
	}
	job := map[string]any{"app": c.App, "dir": dir, "sessions": c.Sessions, "requests": c.Requests}
	jb, _ := json.Marshal(job)
	jobPath := filepath.Join(work, "job.json")
	os.WriteFile(jobPath, jb, 0600)
	tracePath := filepath.Join(work, "trace.txt")
	if _, err := os.Stat(saverPath()); err != nil {
		return infra("saver binary not built: %v", err)
	}
	// (in a process id namespace of its own where the sandbox allows it: like a service in a
	// container, the saver and whatever is started after the crash have the same process id)
	saverCmd := []string{saverPath(), jobPath}
	if pidNamespaces() {
		saverCmd = append([]string{"unshare", "-pf"}, saverCmd...)
		o.class("saver-and-restart-share-a-process-id")
	} else {
		o.class("no-process-id-namespace-available")
	}
	cmd := exec.Command("strace", append([]string{"-f", "-xx", "-s", "10000000", "-o", tracePath,
		"-e", "trace=%file,write,pwrite64,pwritev,pwritev2,writev,close,ftruncate,fsync,fdatasync,fallocate,dup,dup2,dup3,fcntl,sendfile,copy_file_range,splice"},
		saverCmd...)...)
	cmd.Env = append(os.Environ(), "TMPDIR="+tmpdir)
	var stdout, stderr bytes.Buffer
	cmd.Stdout, cmd.Stderr = &stdout, &stderr
	if err := cmd.Run(); err != nil {
		return infra("strace/saver failed: %v: %s", err, stderr.String())
	}
	if got := strings.Count(stdout.String(), "\n"); got != len(c.Requests) {
		return infra("saver answered %d of %d requests: %s", got, len(c.Requests), stderr.String())
	}
	if strings.Contains(stdout.String(), `"panic"`) {
		o.Discard = "saver-request-panicked"
		return
	}
	// what the library asked the store to keep, per request
	savedBy := make([][][]byte, len(c.Requests))
	{
		dec := json.NewDecoder(strings.NewReader(stdout.String()))
		for {
			var r struct {
				N     int      `json:"n"`
				Saved []string `json:"saved"`
			}
			if dec.Decode(&r) != nil {
				break
			}
			if r.N >= 0 && r.N < len(savedBy) {
				for _, h := range r.Saved {
					if b, err := hex.DecodeString(h); err == nil {
						savedBy[r.N] = append(savedBy[r.N], b)
					}
				}
			}
		}
	}
	ops, err := crashfs.Parse(tracePath, dir, tmpdir)
	if err != nil {
		return infra("trace not usable: %v", err)
	}
	st := &c12Stats{syscalls: map[string]int{}}
	fs := crashfs.NewFS()
	recordPath := func(s int) string { return filepath.Join(dir, "@"+c.Sessions[s]) }
	shared := app.NewShared(c.App)
	// continuation of session s with input in from a directory holding exactly files
	continueFrom := func(files map[string][]byte, s int, ins []string) string {
		root := workDir()
		defer os.RemoveAll(root)
		for p, b := range files {
			rel, _ := filepath.Rel(dir, p)
			dst := filepath.Join(root, rel)
			os.MkdirAll(filepath.Dir(dst), 0700)
			os.WriteFile(dst, b, 0600)
		}
		sess := app.NewSession(shared, app.Mode{Kind: "persist", Backend: "fs"}, app.NewFsStorage(root, false))
		sess.Cfg.SessionId = c.Sessions[s]
		var sb strings.Builder
		// two more requests: the first loads the record the crash left and saves again (next
		// to whatever else the crash left in the directory), the second runs from that save
		for _, x := range ins {
			step := sess.Request([]byte(x))
			sb.WriteString(step.Visible() + " panic=" + step.Panic + " path=" + fmt.Sprint(step.After != nil && len(step.After.Path) > 0) + " | ")
		}
		return sb.String()
	}
	// restartFrom: a new process (same process id as the saver where possible) is started on
	// the directory: it serves as many requests of ANOTHER session as the crashed process had
	// served in all, then the crashed session twice. Hard links of the crash state are kept.
	restartFrom := func(materialise func(root string) error, s, k int) string {
		root := workDir()
		defer os.RemoveAll(root)
		store := filepath.Join(root, "store")
		if err := materialise(store); err != nil {
			return "cannot materialise: " + err.Error()
		}
		sessions := append([]string{}, c.Sessions...)
		other := (s + 1) % len(sessions)
		if other == s {
			sessions = append(sessions, "zeta")
			other = len(sessions) - 1
		}
		var reqs []map[string]any
		var oin []string
		for kk := k + 1; kk < len(c.Requests); kk++ {
			if c.Requests[kk].Session == other {
				oin = append(oin, string(c.Requests[kk].Input))
			}
		}
		for n := 0; n <= k; n++ {
			in := ""
			if n < len(oin) {
				in = oin[n]
			}
			reqs = append(reqs, map[string]any{"session": other, "input": BS(in)})
		}
		for kk, n := k+1, 0; n < 2; n++ {
			in := ""
			for ; kk < len(c.Requests); kk++ {
				if c.Requests[kk].Session == s {
					in = string(c.Requests[kk].Input)
					kk++
					break
				}
			}
			reqs = append(reqs, map[string]any{"session": s, "input": BS(in)})
		}
		jb, _ := json.Marshal(map[string]any{"app": c.App, "dir": store, "sessions": sessions, "requests": reqs})
		jp := filepath.Join(root, "job.json")
		os.WriteFile(jp, jb, 0600)
		args := []string{saverPath(), jp}
		if pidNamespaces() {
			args = append([]string{"unshare", "-pf"}, args...)
		}
		cmd := exec.Command(args[0], args[1:]...)
		cmd.Env = append(os.Environ(), "TMPDIR="+tmpdir)
		var out bytes.Buffer
		cmd.Stdout = &out
		if err := cmd.Run(); err != nil {
			return "restart failed: " + err.Error()
		}
		// the answers (not the records the saver reports: those are only held against what
		// the store holds at the end - a record is what the library last asked to be kept,
		// byte for byte, whatever an earlier crash left lying around)
		var sb strings.Builder
		dec := json.NewDecoder(&out)
		last := map[int]string{}
		for {
			var r struct {
				N       int      `json:"n"`
				Session int      `json:"session"`
				Visible string   `json:"visible"`
				Panic   string   `json:"panic"`
				Saved   []string `json:"saved"`
			}
			if dec.Decode(&r) != nil {
				break
			}
			fmt.Fprintf(&sb, "%d:%s panic=%s | ", r.N, r.Visible, r.Panic)
			if len(r.Saved) > 0 {
				last[r.Session] = r.Saved[len(r.Saved)-1]
			}
		}
		for si, h := range last {
			if si < 0 || si >= len(sessions) {
				continue
			}
			if b, err := os.ReadFile(filepath.Join(store, "@"+sessions[si])); err == nil && hex.EncodeToString(b) != h {
				fmt.Fprintf(&sb, "RECORD-NOT-AS-SAVED session %s: the store holds %d bytes, the library last asked it to keep %d | ", sessions[si], len(b), len(h)/2)
			}
		}
		return sb.String()
	}
	restarts := 0
	i := 0
	for i < len(ops) {
		op := ops[i]
		if op.Kind != "marker" || !strings.HasPrefix(op.Marker, "begin/") {
			if op.Kind != "marker" {
				fs.Apply(op, -1)
			}
			i++
			continue
		}
		var k int
		fmt.Sscanf(op.Marker, "begin/%d", &k)
		j := i + 1
		for j < len(ops) && !(ops[j].Kind == "marker" && ops[j].Marker == fmt.Sprintf("end/%d", k)) {
			j++
		}
		if j == len(ops) || k >= len(c.Requests) {
			return infra("request %d has no end marker in the trace", k)
		}
		bracket := ops[i+1 : j]
		s := c.Requests[k].Session
		P := recordPath(s)
		L := filepath.Join(dir, c.Sessions[s]) // the legacy name, read when P is not there
		recGet := func(f *crashfs.FS) ([]byte, bool) {
			if b, ok := f.Get(P); ok {
				return b, true
			}
			return f.Get(L)
		}
		pre := fs.Clone()
		startContent, startExists := recGet(pre)
		// the complete states of the record: as it was, and what the library asked the store
		// to keep during this request (not: whatever the backend published under the name)
		valid := [][]byte{}
		if startExists {
			valid = append(valid, startContent)
		}
		valid = append(valid, savedBy[k]...)
		for _, bop := range bracket {
			st.syscalls[bop.Kind]++
		}
		if len(valid) == 0 {
			// a request that saved nothing for a session that has no record
			for _, bop := range bracket {
				fs.Apply(bop, -1)
			}
			i = j + 1
			continue
		}
		final := valid[len(valid)-1:]
		differs := startExists && len(final) > 0 && !bytes.Equal(final[0], startContent)
		var nextInput []string
		for kk := k + 1; kk < len(c.Requests) && len(nextInput) < 2; kk++ {
			if c.Requests[kk].Session == s {
				nextInput = append(nextInput, string(c.Requests[kk].Input))
			}
		}
		for len(nextInput) < 2 {
			nextInput = append(nextInput, "")
		}
		expectCont := map[string]string{}
		checkState := func(state *crashfs.FS, where string, doCont bool) *Violation {
			st.crashStates++
			content, exists := recGet(state)
			matched := -1
			for vi, v := range valid {
				if exists && bytes.Equal(v, content) {
					matched = vi
				}
			}
			if !exists && startExists {
				return viol("record-missing", "request %d (session %s): crash %s leaves no record although one was saved before", k, c.Sessions[s], where)
			}
			if exists && matched < 0 {
				return viol("torn-record", "request %d (session %s): crash %s leaves a record of %d bytes that is neither the previously saved state (%d bytes, exists=%v) nor a completely written new one (%v bytes): the engine would silently start a new session or fail", k, c.Sessions[s], where, len(content), len(startContent), startExists, lens(valid))
			}
			// other sessions' records untouched
			for os2 := range c.Sessions {
				if os2 == s {
					continue
				}
				q := recordPath(os2)
				b0, e0 := pre.Get(q)
				b1, e1 := state.Get(q)
				if e0 != e1 || !bytes.Equal(b0, b1) {
					return viol("other-session-touched", "request %d of session %s: crash %s changed the record of session %s", k, c.Sessions[s], where, c.Sessions[os2])
				}
			}
			if doCont && exists {
				st.continuations++
				got := continueFrom(state.Files(), s, nextInput)
				// what a directory holding nothing but complete records answers: from the record
				// that is there or - a start may complete an interrupted save it finds - from any
				// other state this request saved or found
				wantFor := func(content []byte) string {
					key := string(content)
					want, ok := expectCont[key]
					if !ok {
						clean := map[string][]byte{P: content}
						for os2 := range c.Sessions {
							if b, e := pre.Get(recordPath(os2)); e && os2 != s {
								clean[recordPath(os2)] = b
							}
						}
						want = continueFrom(clean, s, nextInput)
						expectCont[key] = want
					}
					return want
				}
				want := wantFor(content)
				for _, v := range valid {
					if got == want {
						break
					}
					if w := wantFor(v); got == w {
						want = w
					}
				}
				// the same from a process started anew, which first serves another session: for
				// crash states in which a record shares its file with another name, and a sample
				// of the others
				restarts++
				strayScratch := false
				for _, n := range names(state.Files(), dir) {
					if strings.HasPrefix(filepath.Base(n), ".") {
						strayScratch = true // the crash left a scratch file behind
					}
				}
				if state.Aliased() || restarts%16 == 0 || (strayScratch && restarts%3 == 0) {
					st.restarts++
					gotR := restartFrom(func(root string) error { return state.Materialise(dir, root) }, s, k)
					wantR := ""
					for _, v := range valid {
						clean := map[string][]byte{P: v}
						for os2 := range c.Sessions {
							if b, e := pre.Get(recordPath(os2)); e && os2 != s {
								clean[recordPath(os2)] = b
							}
						}
						wantR = restartFrom(func(root string) error {
							for p, b := range clean {
								rel, _ := filepath.Rel(dir, p)
								dst := filepath.Join(root, rel)
								os.MkdirAll(filepath.Dir(dst), 0700)
								if err := os.WriteFile(dst, b, 0600); err != nil {
									return err
								}
							}
							return os.MkdirAll(root, 0700)
						}, s, k)
						if wantR == gotR {
							break
						}
					}
					if gotR != wantR {
						return viol("restart-differs", "request %d (session %s): after a crash %s a new process that first serves another session and then this one answers %s, from complete records alone it answers %s (files: %v, shared file: %v)", k, c.Sessions[s], where, gotR, wantR, names(state.Files(), dir), state.Aliased())
					}
				}
				if got != want {
					return viol("continuation-differs", "request %d (session %s): after a crash %s a fresh engine answers the next input %q with %s, from the clean record it answers %s (stray files: %v)", k, c.Sessions[s], where, nextInput, got, want, names(state.Files(), dir))
				}
			}
			return nil
		}
		cur := pre.Clone()
		thorough := tier() == "thorough"
		for bi, bop := range bracket {
			if (bop.Kind == "write" || bop.Kind == "pwrite") && len(bop.Data) > 1 {
				for _, cut := range []int{1, len(bop.Data) / 2, len(bop.Data) - 1} {
					part := cur.Clone()
					part.Apply(bop, cut)
					st.inside++
					if differs {
						st.differing++
					}
					if v := checkState(part, fmt.Sprintf("after %d of %d bytes of operation %d %s", cut, len(bop.Data), bi, bop), thorough || cut == len(bop.Data)/2); v != nil {
						o.Viol = v
						return
					}
				}
			}
			cur.Apply(bop, -1)
			if bi < len(bracket)-1 {
				st.inside++
				if differs {
					st.differing++
				}
			}
			if v := checkState(cur, fmt.Sprintf("right after operation %d %s", bi, bop), thorough || bi%3 == 0 || bi == len(bracket)-1); v != nil {
				o.Viol = v
				return
			}
		}
		for _, bop := range bracket {
			fs.Apply(bop, -1)
		}
		i = j + 1
	}
	if err := fs.EqualDir(dir); err != nil {
		return infra("replayer self-check failed: %v", err)
	}
	o.NonTrivial = st.differing > 0
	o.ExtraEvals = st.crashStates
	o.class("crash-states:%d", min(st.crashStates/20*20, 200))
	for k, n := range st.syscalls {
		if n > 0 {
			o.class("syscall:" + k)
		}
	}
	c12Totals.crashStates += st.crashStates
	c12Totals.inside += st.inside
	c12Totals.differing += st.differing
	c12Totals.continuations += st.continuations
	c12Totals.restarts += st.restarts
	return
}

var c12Totals c12Stats

func lens(v [][]byte) []int {
	var out []int
	for _, b := range v {
		out = append(out, len(b))
	}
	return out
}

func names(files map[string][]byte, dir string) []string {
	var out []string
	for p := range files {
		rel, _ := filepath.Rel(dir, p)
		out = append(out, rel)
	}
	return out
}

var _ = registerReplay("C12", "trace", checkC12)

func TestC12(t *testing.T) {
	if _, err := exec.LookPath("strace"); err != nil {
		t.Fatalf("inconclusive: strace not available: %v", err)
	}
	runKnownExamples(t, "C12")
	n := pick(25, 150)
	setChecks(n)
	defer func() {
		stats.note("crash states checked: %d (strictly inside a save: %d, of those with an old record that differs from the new: %d); continuations executed: %d (of those by a newly started process that serves another session first: %d); crash model: process death at syscall boundaries and inside writes; power loss / reordering below the syscall layer out of scope", c12Totals.crashStates, c12Totals.inside, c12Totals.differing, c12Totals.continuations, c12Totals.restarts)
		if t.Failed() && infraFailure == "" {
			fmt.Printf("VERIF-VIOLATION property=C12 sub=trace\n")
		}
		if infraFailure != "" {
			fmt.Printf("VERIF-INCONCLUSIVE property=C12: %s\n", infraFailure)
		}
	}()
	rapid.Check(t, func(rt *rapid.T) {
		c := genC12(rt)
		o := safeCheck(checkC12, c)
		if infraFailure != "" {
			rt.Fatalf("inconclusive: %s", infraFailure)
		}
		if fail, msg := handle("C12", "trace", c, o); fail {
			rt.Fatalf("%s", msg)
		}
	})
}
