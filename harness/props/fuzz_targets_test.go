package props

// Coverage-guided campaigns over the rapid generators (thorough tier only, time-boxed, driven
// by ./check): go's native fuzzer mutates the byte stream rapid draws from
// (rapid.MakeFuzz), so the cases stay inside each generator's domain while the search is
// steered by coverage of the code under test instead of by the generator's own distribution.
// A failing case is written as the same JSON replay file the rapid runs write.

import (
	"encoding/json"
	"fmt"
	"testing"

	"pgregory.net/rapid"
)

func fuzzProp[C any](f *testing.F, prop, sub string, gen func(*rapid.T) C, check func(C) Outcome) {
	f.Add([]byte{})
	f.Add([]byte{0xff, 0x00, 0x7f, 0x80, 0x01, 0xfe, 0x55, 0xaa, 0x10, 0x20, 0x40, 0x08, 0x04, 0x02, 0xc3, 0x3c})
	f.Fuzz(rapid.MakeFuzz(func(t *rapid.T) {
		c := gen(t)
		o := safeCheck(check, c)
		if o.Viol == nil {
			return
		}
		raw, _ := json.Marshal(c)
		if kf := explainedByKnown(prop, sub, raw, o.Viol); kf != "" {
			return
		}
		writeReplay(prop, sub, c, o.Viol)
		fmt.Printf("VERIF-VIOLATION property=%s sub=%s\n", prop, sub)
		// (a fuzz worker's stdout is not forwarded: the marker goes into the failure message)
		t.Fatalf("VERIF-VIOLATION property=%s sub=%s\n%s/%s violated [%s]: %s", prop, sub, prop, sub, o.Viol.Kind, o.Viol.Msg)
	}))
}

func FuzzC09(f *testing.F) { fuzzProp(f, "C09", "ops", genC09, checkC09) }
func FuzzC10(f *testing.F) { fuzzProp(f, "C10", "ops", genC10, checkC10) }
func FuzzC11(f *testing.F) { fuzzProp(f, "C11", "triples", genC11, checkC11) }
func FuzzC14(f *testing.F) { fuzzProp(f, "C14", "prog", genC14, checkC14) }
func FuzzC16(f *testing.F) { fuzzProp(f, "C16", "src", genC16, checkC16) }
func FuzzC01(f *testing.F) {
	fuzzProp(f, "C01", "page", func(t *rapid.T) PageCase { return genPageCase(t, pageGenOpts{}) }, checkC01Page)
}
func FuzzC02(f *testing.F) {
	fuzzProp(f, "C02", "page", func(t *rapid.T) PageCase {
		return genPageCase(t, pageGenOpts{sink: true, emptyRows: chancePct(t, 20, "emptyrows")})
	}, checkC02)
}
