package props

// C15 — malformed bytecode is rejected with an error, never a crash or a silent accept.
//
// sub "mut":  a generated valid program with one edit (truncation, byte substitution,
//             insertion, deletion) — every byte string the decoders may meet that is
//             "almost" a program
// sub "raw":  arbitrary short byte strings (all of length <= 2 in quick, <= 3 in thorough)
// sub "fuzz": coverage-guided native fuzzing (thorough), same oracle
//
// Oracle (checkBytes): no decoder panic in ParseAll / ToString / vm.Parse* / Vm.Run;
// success of ParseAll or ToString implies the strict reference decoder accepts the
// whole input and lists the same instructions; Vm.Run on "inert prefix + malformed
// instruction" returns an error.

import (
	"context"
	"encoding/hex"
	"encoding/json"
	"fmt"
	"runtime/debug"
	"strings"
	"testing"

	"git.defalsify.org/vise.git/cache"
	"git.defalsify.org/vise.git/resource"
	"git.defalsify.org/vise.git/state"
	"git.defalsify.org/vise.git/vm"
	"pgregory.net/rapid"

	"verifharness/refdec"
)

type C15Mut struct {
	Kind string `json:"kind"` // none trunc subst insert delete
	Pos  int    `json:"pos"`
	Val  byte   `json:"val"`
}

type C15Case struct {
	Prog []Instr `json:"prog,omitempty"`
	Mut  C15Mut  `json:"mut"`
	Hex  string  `json:"hex,omitempty"` // used instead of Prog when set (raw / fuzz inputs)
}

func (c C15Case) bytes() ([]byte, bool) {
	if c.Prog == nil {
		b, err := hex.DecodeString(c.Hex)
		return b, err == nil
	}
	b, err := refdec.EncodeAll(c.Prog)
	if err != nil {
		return nil, false
	}
	m := c.Mut
	if len(b) == 0 {
		return b, true
	}
	pos := m.Pos % len(b)
	if pos < 0 {
		pos = -pos
	}
	switch m.Kind {
	case "trunc":
		return b[:pos], true
	case "subst":
		out := append([]byte{}, b...)
		out[pos] = m.Val
		return out, true
	case "insert":
		out := append([]byte{}, b[:pos]...)
		out = append(out, m.Val)
		return append(out, b[pos:]...), true
	case "delete":
		out := append([]byte{}, b[:pos]...)
		return append(out, b[pos+1:]...), true
	}
	return b, true
}

var hostileBytes = []byte{0x00, 0x01, 0x03, 0x04, 0x05, 0x06, 0x07, 0x0c, 0x0d, 0x7f, 0x80, 0xfe, 0xff}

var genInstrText = rapid.Custom(func(t *rapid.T) Instr { return genInstr(t, false) })

var genIncmpLine = rapid.Custom(func(t *rapid.T) Instr {
	op := uint16(refdec.INCMP)
	if chancePct(t, 25, "menuline") {
		op = []uint16{refdec.MOUT, refdec.MNEXT, refdec.MPREV, refdec.MSINK}[uniformN(t, 4, "inert")]
	}
	in := Instr{Op: op}
	if op != refdec.MSINK {
		in.Sym = refdec.BS([]string{"foo", "bar", "baz_1", "node"}[uniformN(t, 4, "target")])
		in.Sel = refdec.BS([]string{"1", "2", "1", "00", "a"}[uniformN(t, 5, "sel")])
	}
	return in
})

func genC15(t *rapid.T) C15Case {
	var c C15Case
	if chancePct(t, 30, "incmpprog") {
		// input routing: several INCMP lines (duplicate selectors common) and menu lines
		c.Prog = rapid.SliceOfN(genIncmpLine, 2, 6).Draw(t, "incmpprog")
	} else {
		c.Prog = rapid.SliceOfN(genInstrText, 1, 8).Draw(t, "prog")
	}
	c.Mut.Kind = rapid.SampledFrom([]string{"trunc", "trunc", "subst", "subst", "insert", "delete", "none"}).Draw(t, "mut")
	c.Mut.Pos = rapid.IntRange(0, 4000).Draw(t, "pos")
	if rapid.Bool().Draw(t, "hostile") {
		c.Mut.Val = rapid.SampledFrom(hostileBytes).Draw(t, "val")
	} else {
		c.Mut.Val = rapid.Byte().Draw(t, "valb")
	}
	return c
}

// failingWriter accepts a number of bytes and then fails every write.
type failingWriter struct {
	after  int
	n      int
	failed bool
}

func (w *failingWriter) Write(p []byte) (int, error) {
	if w.n+len(p) > w.after {
		w.failed = true
		return 0, fmt.Errorf("sink closed")
	}
	w.n += len(p)
	return len(p), nil
}

func decoderPanic(stack string) bool {
	for _, f := range []string{"vm.intSplit", "vm.instructionSplit", "vm.opSplit", "vm.parseSym", "vm.parseTwoSym", "vm.parseSig", "vm.parseNoArg",
		"vm.ParseOp", "vm.ParseLoad", "vm.ParseCatch", "vm.ParseCroak", "vm.ParseReload", "vm.ParseMap", "vm.ParseMove", "vm.ParseHalt",
		"vm.ParseInCmp", "vm.ParseMSink", "vm.ParseMOut", "vm.ParseMNext", "vm.ParseMPrev", "vm.(*ParseHandler)"} {
		if strings.Contains(stack, f) {
			return true
		}
	}
	return false
}

type panicInfo struct {
	val   string
	stack string
}

func catchPanic(f func()) (p *panicInfo) {
	defer func() {
		if r := recover(); r != nil {
			p = &panicInfo{fmt.Sprint(r), string(debug.Stack())}
		}
	}()
	f()
	return nil
}

func withoutNoop(ins []Instr) []Instr {
	var out []Instr
	for _, in := range ins {
		if in.Op != refdec.NOOP {
			out = append(out, in)
		}
	}
	return out
}

// runVm executes b on a VM whose resource knows no node, template or function.
func runVm(b []byte) (rest []byte, err error) {
	return runVmWith(b, nil, false)
}

// runVmWith: input set (nil: none); knowsNodes: every node exists and consists of HALT.
func runVmWith(b []byte, input []byte, knowsNodes bool) (rest []byte, err error) {
	st := state.NewState(2032) // 2040 flags: the largest field whose byte size fits the 8-bit size
	rs := resource.NewMenuResource()
	rs.WithCodeGetter(func(ctx context.Context, sym string) ([]byte, error) {
		if knowsNodes {
			return []byte{0, 7}, nil
		}
		return nil, fmt.Errorf("no such node %q", sym)
	})
	ca := cache.NewCache()
	st.Down("root")
	ca.Push()
	if input != nil {
		st.SetInput(input)
	}
	v := vm.NewVm(st, rs, ca, nil)
	return v.Run(context.Background(), b)
}

func isRuntimeBoundsPanic(p *panicInfo) bool {
	return strings.Contains(p.val, "runtime error: index out of range") || strings.Contains(p.val, "runtime error: slice bounds out of range")
}

func regularName(s string) bool {
	if len(s) < 2 {
		return false
	}
	for i := 0; i < len(s); i++ {
		c := s[i]
		if !(c >= 'a' && c <= 'z' || c >= 'A' && c <= 'Z' || (i > 0 && (c >= '0' && c <= '9' || c == '_'))) {
			return false
		}
	}
	return true
}

func isInert(op uint16) bool {
	return op == refdec.MOUT || op == refdec.MNEXT || op == refdec.MPREV || op == refdec.MSINK
}

// checkBytes is the C15 oracle for one input.
func checkBytes(b []byte) (v *Violation, rejectedByRef bool, classes []string) {
	refIns, _, derr := refdec.DecodeAll(b)
	rejectedByRef = derr != nil
	want := withoutNoop(refIns)

	// ParseAll with recording handlers
	var seen []Instr
	var perr error
	if p := catchPanic(func() { _, perr = recordingHandler(&seen).ParseAll(append([]byte{}, b...)) }); p != nil {
		return &Violation{Kind: "panic-parseall", Msg: fmt.Sprintf("ParseAll panics on %x: %s", b, p.val), Detail: p.stack}, rejectedByRef, nil
	}
	if perr == nil {
		classes = append(classes, "parseall-accepts")
		if derr != nil {
			return viol("silent-accept-parseall", "ParseAll reports success on %x, which is malformed: %v", b, derr), rejectedByRef, classes
		}
		if !refdec.Equal(seen, want) {
			return viol("parseall-list", "ParseAll on %x visited %v, the input holds %v", b, seen, want), rejectedByRef, classes
		}
	} else {
		classes = append(classes, "parseall-rejects")
	}
	// ToString
	var text string
	var terr error
	if p := catchPanic(func() {
		text, terr = vm.NewParseHandler().WithDefaultHandlers().ToString(append([]byte{}, b...))
	}); p != nil {
		return &Violation{Kind: "panic-tostring", Msg: fmt.Sprintf("ToString panics on %x: %s", b, p.val), Detail: p.stack}, rejectedByRef, classes
	}
	if terr == nil {
		if derr != nil {
			return viol("silent-accept-tostring", "ToString reports success (%q) on %x, which is malformed: %v", text, b, derr), rejectedByRef, classes
		}
		if textSafe(want) {
			back, rerr := readListing(text)
			if rerr != nil || !refdec.Equal(back, want) {
				return viol("tostring-list", "ToString on %x lists %q (%v), the input holds %v", b, text, rerr, want), rejectedByRef, classes
			}
		}
	}
	// the disassembler writing to a sink that stops accepting data: whatever it does about
	// the sink, malformed input is still not a success
	if derr != nil {
		for _, after := range []int{0, 1, 9, 40} {
			var werr error
			w := &failingWriter{after: after}
			if p := catchPanic(func() {
				_, werr = vm.NewParseHandler().WithDefaultHandlers().WithWriter(w).ParseAll(append([]byte{}, b...))
			}); p != nil {
				return &Violation{Kind: "panic-parseall", Msg: fmt.Sprintf("ParseAll with a failing writer panics on %x: %s", b, p.val), Detail: p.stack}, rejectedByRef, classes
			}
			if werr == nil {
				return viol("silent-accept-parseall", "ParseAll writing to a sink that fails after %d bytes reports success on %x, which is malformed: %v", after, b, derr), rejectedByRef, classes
			}
			if w.failed {
				classes = append(classes, "sink-failed-before-malformed-tail")
			}
		}
	}
	// the per-opcode decoders on the head of the input
	var herr error
	if p := catchPanic(func() { _, _, herr = vmDecodeOne(append([]byte{}, b...)) }); p != nil {
		return &Violation{Kind: "panic-parse", Msg: fmt.Sprintf("vm.Parse* panics on %x: %s", b, p.val), Detail: p.stack}, rejectedByRef, classes
	}
	if herr == nil {
		if _, _, e1 := refdec.DecodeOne(b, 0, nil); e1 != nil {
			return viol("silent-accept-parse", "vm.Parse* decodes the head of %x without error, but it is malformed: %v", b, e1), rejectedByRef, classes
		}
	}
	// Vm.Run
	var rerr error
	p := catchPanic(func() { _, rerr = runVm(append([]byte{}, b...)) })
	if p != nil {
		if decoderPanic(p.stack) {
			return &Violation{Kind: "panic-run", Msg: fmt.Sprintf("Vm.Run panics while decoding %x: %s", b, p.val), Detail: p.stack}, rejectedByRef, classes
		}
		classes = append(classes, "run-semantic-panic")
	} else if derr != nil {
		inertPrefix := true
		for _, in := range refIns {
			if !isInert(in.Op) {
				inertPrefix = false
			}
		}
		if inertPrefix {
			classes = append(classes, "run-reaches-malformed")
			if rerr == nil {
				return viol("silent-accept-run", "Vm.Run returns no error on %x although execution reaches a malformed instruction (%v)", b, derr), rejectedByRef, classes
			}
		}
	}
	// Vm.Run while input is being handled: the decoder is also reached through the INCMP
	// paths (before and after a match). Input = the selector of the first INCMP.
	for _, in := range refIns {
		if in.Op != refdec.INCMP || in.Sel == "*" || len(in.Sel) > 255 {
			continue
		}
		var ierr error
		ip := catchPanic(func() { _, ierr = runVmWith(append([]byte{}, b...), []byte(in.Sel), true) })
		if ip != nil {
			// an index/slice-bounds runtime error anywhere but in the flag field (flag index out
			// of range is a documented precondition that panics by design) is the decoder
			// reading past the end
			if decoderPanic(ip.stack) || (isRuntimeBoundsPanic(ip) && !strings.Contains(ip.stack, "vise.git/state.")) {
				return &Violation{Kind: "panic-run", Msg: fmt.Sprintf("Vm.Run with input %q panics while decoding %x: %s", in.Sel, b, ip.val), Detail: ip.stack}, rejectedByRef, classes
			}
			classes = append(classes, "run-semantic-panic")
		} else if derr != nil {
			// does execution reach the malformed instruction? yes if everything before it is
			// inert or an INCMP whose target is a plain node name (a match moves there: the
			// node exists and holds HALT, which comes after the remaining code)
			reach := true
			for _, pin := range refIns {
				if isInert(pin.Op) {
					continue
				}
				if pin.Op == refdec.INCMP && regularName(string(pin.Sym)) {
					continue
				}
				reach = false
			}
			if reach {
				classes = append(classes, "run-with-input-reaches-malformed")
				if ierr == nil {
					// F-C15-5: the input ends inside its last instruction, but an earlier INCMP of
					// the same run matched and appended its target's code behind it: the cut-off
					// argument is completed with bytes of the appended code
					appended := false
					for _, pin := range refIns {
						if pin.Op == refdec.INCMP && (pin.Sel == in.Sel || pin.Sel == "*") {
							appended = true
						}
					}
					completes := strings.HasPrefix(derr.Reason, "truncated") && appended
					if completes && tolerate("F-C15-5") {
						classes = append(classes, "tolerated:F-C15-5")
					} else {
						v := viol("silent-accept-run", "Vm.Run with input %q returns no error on %x although execution reaches a malformed instruction (%v)", in.Sel, b, derr)
						if completes {
							v.Detail = "appended-code-completes-truncated-argument"
						}
						return v, rejectedByRef, classes
					}
				}
			}
		}
		break
	}
	if derr != nil {
		classes = append(classes, "ref:"+derr.Reason)
	} else {
		classes = append(classes, "ref:valid")
	}
	return nil, rejectedByRef, classes
}

func checkC15(c C15Case) (o Outcome) {
	b, ok := c.bytes()
	if !ok {
		o.Discard = "unencodable"
		return
	}
	var rej bool
	o.Viol, rej, o.Classes = checkBytes(b)
	o.NonTrivial = rej && (c.Prog == nil || c.Mut.Kind != "none")
	if c.Prog != nil {
		o.class("mut:" + c.Mut.Kind)
	}
	return
}

func init() {
	knownPredicates["c15-appended-code-completes-truncated-argument"] = func(sub string, raw json.RawMessage, v *Violation) bool {
		return v.Kind == "silent-accept-run" && v.Detail == "appended-code-completes-truncated-argument"
	}
}

var _ = registerReplay("C15", "mut", checkC15)
var _ = registerReplay("C15", "raw", checkC15)
var _ = registerReplay("C15", "fuzz", checkC15)

func c15Seeds() [][]byte {
	progs := [][]Instr{
		{{Op: refdec.LOAD, Sym: "foo", Num: 42}, {Op: refdec.MAP, Sym: "foo"}, {Op: refdec.HALT}, {Op: refdec.INCMP, Sym: "bar", Sel: "1"}, {Op: refdec.INCMP, Sym: "_", Sel: "*"}},
		{{Op: refdec.CATCH, Sym: "xyzzy", Num: 8, Mode: true}, {Op: refdec.CROAK, Num: 300, Mode: false}, {Op: refdec.MOVE, Sym: "foo"}},
		{{Op: refdec.MOUT, Sym: "lbl", Sel: "0"}, {Op: refdec.MNEXT, Sym: "to_next", Sel: "11"}, {Op: refdec.MPREV, Sym: "to_prev", Sel: "22"}, {Op: refdec.MSINK}, {Op: refdec.RELOAD, Sym: "baz"}, {Op: refdec.LOAD, Sym: "big", Num: 70000}},
	}
	var out [][]byte
	for _, p := range progs {
		b, _ := refdec.EncodeAll(p)
		out = append(out, b)
	}
	// integers longer than four bytes whose surplus leading bytes are zero (the value fits)
	for _, l := range []int{5, 6, 8, 9, 255} {
		for _, head := range [][]byte{{0, 3, 1, 'a'}, {0, 2}, {0, 1, 1, 'a'}} {
			b := append(append([]byte{}, head...), byte(l))
			b = append(b, make([]byte, l-1)...)
			b = append(b, 7)
			if head[1] != 3 {
				b = append(b, 1) // matchmode of CROAK / CATCH
			}
			out = append(out, b, append(append([]byte{}, b...), 0, 7))
		}
	}
	// hostile length bytes
	out = append(out, []byte{0, 3, 3, 'f', 'o'}, []byte{0, 3, 3, 'f', 'o', 'o'}, []byte{0, 3, 3, 'f', 'o', 'o', 5, 1, 2, 3, 4, 5},
		[]byte{0, 2, 0xff}, []byte{0, 8, 1, 'a'}, []byte{0, 1, 0xff, 'a'}, []byte{0, 13}, []byte{0, 2, 4, 1, 2, 3})
	return out
}

func TestC15(t *testing.T) {
	runKnownExamples(t, "C15")
	// the hand-picked hostile seeds first (also the fuzz corpus)
	RunEnum(t, "C15", "raw", false, "hostile seed inputs", func(yield func(C15Case) bool) {
		for _, b := range c15Seeds() {
			if !yield(C15Case{Hex: hex.EncodeToString(b)}) {
				return
			}
		}
	}, checkC15)
	if t.Failed() {
		return
	}
	RunProp(t, "C15", "mut", pick(12000, 120000), genC15, checkC15)
	if t.Failed() {
		return
	}
	runC15Cli(t)
	if t.Failed() {
		return
	}
	runC15Stateful(t)
	if t.Failed() {
		return
	}
	// every truncation of a few generated programs is covered by "mut"; here: all short strings
	idx, n := shardInfo()
	maxLen := 2
	if tier() == "thorough" {
		maxLen = 3
	}
	var cnt int64
	var rejected int64
	total := uint64(1)
	failed := false
	for l := 0; l <= maxLen && !failed; l++ {
		if l > 0 {
			total *= 256
		}
		buf := make([]byte, l)
		for v := uint64(idx); v < total; v += uint64(n) {
			x := v
			for i := l - 1; i >= 0; i-- {
				buf[i] = byte(x)
				x >>= 8
			}
			cnt++
			bad, rej, _ := checkBytes(buf)
			if rej {
				rejected++
			}
			if bad != nil {
				o := Outcome{Viol: bad, NonTrivial: true}
				if fail, msg := handle("C15", "raw", C15Case{Hex: hex.EncodeToString(buf)}, o); fail {
					fmt.Printf("VERIF-VIOLATION property=C15 sub=raw\n")
					t.Errorf("%s", msg)
					failed = true
					break
				}
			}
		}
	}
	stats.mu.Lock()
	stats.Evals += cnt
	stats.Classes["raw-rejected-by-reference"] += rejected
	stats.mu.Unlock()
	stats.addSubspace(fmt.Sprintf("raw-all-strings-len<=%d", maxLen), cnt, !failed, "every byte string up to that length (split over shards)")
}

// FuzzC15 is the coverage-guided target (thorough tier; driven by ./check).
func FuzzC15(f *testing.F) {
	for _, s := range c15Seeds() {
		f.Add(s)
	}
	f.Fuzz(func(t *testing.T, b []byte) {
		if len(b) > 4096 {
			return
		}
		bad, _, _ := checkBytes(b)
		if bad != nil {
			c := C15Case{Hex: hex.EncodeToString(b)}
			raw := []byte(fmt.Sprintf(`{"hex":%q,"mut":{"kind":"","pos":0,"val":0}}`, c.Hex))
			if kf := explainedByKnown("C15", "fuzz", raw, bad); kf != "" {
				return
			}
			writeReplay("C15", "fuzz", c, bad)
			fmt.Printf("VERIF-VIOLATION property=C15 sub=fuzz\n")
			t.Fatalf("VERIF-VIOLATION property=C15 sub=fuzz\nC15 violated [%s]: %s", bad.Kind, bad.Msg)
		}
	})
}
