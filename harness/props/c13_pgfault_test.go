package props

// C13 — a storage error on Postgres never wedges the store or loses acknowledged writes.
//
// Operation sequences on db/postgres over the in-process transactional fake, with 0, 1
// or 2 failing primitive driver calls. sub "enum": every sequence up to a length bound
// over a small alphabet x every single (and, thorough, every pair of) fault position(s);
// sub "rand": longer generated sequences with generated fault plans.

import (
	"bytes"
	"context"
	"encoding/json"
	"fmt"
	"sort"
	"strings"
	"testing"

	"git.defalsify.org/vise.git/db"
	"git.defalsify.org/vise.git/db/postgres"
	"pgregory.net/rapid"

	"verifharness/pgfake"
)

type C13Op struct {
	Kind string `json:"kind"` // put get start stop abort lang dump undump
	Key  string `json:"key,omitempty"`
	Lang string `json:"lang,omitempty"`
	// Hold (dump): the caller takes the first entry only and keeps the dumper, unread and
	// unclosed, until an undump (or for good)
	Hold bool `json:"hold,omitempty"`
	// Dead: the operation is called with a context that is already cancelled (the request's
	// deadline has passed): every driver call it makes fails
	Dead bool `json:"dead,omitempty"`
}

type C13Case struct {
	Ops    []C13Op `json:"ops"`
	Faults []int   `json:"faults,omitempty"` // absolute ordinals of primitive driver calls that fail
	// Translated: work on a translatable type with a language set, so that Put writes the
	// translation entry and Get issues two queries (translation, then default)
	Translated bool `json:"translated,omitempty"`
	// Lenient: a failed statement leaves its transaction usable instead of aborted
	Lenient bool `json:"lenient,omitempty"`
	// Retryable: the injected faults are errors the driver calls safe to retry (a pooled
	// connection found dead before anything was sent)
	Retryable bool `json:"retryable,omitempty"`
}

func (c C13Case) String() string {
	var s []string
	for _, op := range c.Ops {
		x := op.Kind
		if op.Key != "" {
			x += " " + op.Key
		}
		if op.Kind == "lang" {
			x += " " + map[bool]string{true: "-", false: op.Lang}[op.Lang == ""]
		}
		if op.Hold {
			x += " (held)"
		}
		if op.Dead {
			x += " (dead ctx)"
		}
		s = append(s, x)
	}
	return fmt.Sprintf("[%s] faults=%v translated=%v lenient=%v retryable=%v", strings.Join(s, "; "), c.Faults, c.Translated, c.Lenient, c.Retryable)
}

type c13Ref struct {
	vals      map[string][]byte // acknowledged values
	free      map[string]bool   // keys whose visible value is unconstrained
	explicit  bool
	clean     bool
	pending   map[string][]byte
	faultSeen bool
}

type c13Result struct {
	viol       *Violation
	prims      int // primitive calls made in total
	afterFault int // operations executed after the last fault fired
	multiPuts  int // writes inside explicit transactions
	dumps      int
	faultFired int
	tolerated  []string
}

func runC13(c C13Case) (res c13Result) {
	ctx := context.Background()
	srv := pgfake.NewServer()
	srv.SetFaults(c.Faults)
	srv.Lenient = c.Lenient
	srv.Retryable = c.Retryable
	store := postgres.NewPgDb().WithConnection(srv.Conn())
	store.SetPrefix(db.DATATYPE_USERDATA)
	store.SetSession("s")
	// the reference works on storage names: the key itself or, on a translatable type with
	// a language in effect, key_<lang> with a fall back to the key itself when reading
	userKey := func(name string) []byte { return append([]byte{db.DATATYPE_USERDATA}, []byte("s."+name)...) }
	curLang := ""
	if c.Translated {
		store.SetLock(db.DATATYPE_TEMPLATE, false)
		store.SetPrefix(db.DATATYPE_TEMPLATE)
		store.SetLanguage(langPtr("nor"))
		curLang = "nor"
		userKey = func(name string) []byte { return append([]byte{db.DATATYPE_TEMPLATE}, []byte(name)...) }
	}
	names := func(k string) (primary, fallback string) {
		if c.Translated && curLang != "" {
			return k + "_" + curLang, k
		}
		return k, ""
	}
	ref := &c13Ref{vals: map[string][]byte{}, free: map[string]bool{}, pending: map[string][]byte{}}
	fail := func(i int, op C13Op, kind, format string, a ...any) c13Result {
		res.viol = viol(kind, "%s: op %d (%s %s): %s\n driver log: %v", c, i, op.Kind, op.Key, fmt.Sprintf(format, a...), srv.Log)
		return res
	}
	lastFaultOp := -1
	// F-C13-1: once a Start has succeeded the handle stays in multi-operation mode for
	// good; writes acknowledged after the Stop sit in a lingering transaction
	sticky := false
	stickyKeys := map[string]bool{}
	stickyFail := func(r c13Result, key string) c13Result {
		if stickyKeys[key] {
			r.viol.Detail = "sticky-multi"
		}
		return r
	}
	ops := append(append([]C13Op{}, c.Ops...), C13Op{Kind: "close"})
	var held *db.Dumper
	for i, op := range ops {
		primBefore := srv.Prim()
		logBefore := srv.LogLen()
		var err error
		var got []byte
		var dumped map[string][]byte
		dumpLog := -1 // length of the driver log when Dump itself returned
		val := []byte(fmt.Sprintf("v%d", i))
		ctx := ctx
		if op.Dead {
			dctx, cancel := context.WithCancel(ctx)
			cancel()
			ctx = dctx
		}
		p := catchPanic(func() {
			switch op.Kind {
			case "lang":
				curLang = op.Lang
				if c.Translated {
					if op.Lang == "" {
						store.SetLanguage(nil)
					} else {
						store.SetLanguage(langPtr(op.Lang))
					}
				}
			case "dump":
				var d *db.Dumper
				d, err = store.Dump(ctx, []byte(op.Key))
				dumpLog = srv.LogLen()
				if err == nil && d != nil && op.Hold {
					dumped = map[string][]byte{}
					if k, v := d.Next(ctx); k != nil {
						dumped[string(k)] = v
					}
					held = d
				} else if err == nil && d != nil {
					dumped = map[string][]byte{}
					for n := 0; n < 100; n++ {
						k, v := d.Next(ctx)
						if k == nil {
							break
						}
						dumped[string(k)] = v
					}
					d.Close()
				}
				// Dump clears the language of the handle; that side effect is none of this
				// property's business, the language in effect is put back
				if c.Translated {
					if curLang == "" {
						store.SetLanguage(nil)
					} else {
						store.SetLanguage(langPtr(curLang))
					}
				}
			case "undump":
				if held != nil {
					held.Close()
					held = nil
				}
			case "put":
				err = store.Put(ctx, []byte(op.Key), val)
			case "get":
				got, err = store.Get(ctx, []byte(op.Key))
			case "start":
				err = store.Start(ctx)
			case "stop":
				err = store.Stop(ctx)
			case "abort":
				store.Abort(ctx)
			case "close":
				err = store.Close(ctx)
			}
		})
		if p != nil {
			res.viol = &Violation{Kind: "panic", Msg: fmt.Sprintf("%s: op %d (%s %s) panics: %s\n driver log: %v", c, i, op.Kind, op.Key, p.val, srv.Log), Detail: p.stack}
			return
		}
		if len(srv.Unknown) > 0 {
			res.viol = viol("harness-unknown-statement", "the fake does not recognise: %q", srv.Unknown[0])
			return
		}
		// did an injected fault fire during this operation?
		faulted, faultedInCall := false, false
		for j, ev := range srv.LogSince(logBefore) {
			if ev.Note == "injected" {
				faulted = true
				// a Dumper's Next has no way to report an error: only the Dump call itself is
				// held to "reports an error"
				if dumpLog < 0 || logBefore+j < dumpLog {
					faultedInCall = true
				}
			}
		}
		if faulted {
			res.faultFired++
			lastFaultOp = i
			ref.faultSeen = true
			// (1) the operation reports the error
			if err == nil && faultedInCall && op.Kind != "abort" && op.Kind != "close" {
				if op.Kind == "dump" {
					r := fail(i, op, "fault-swallowed", "a driver call failed during Dump but it returned no error")
					for _, ev := range srv.LogSince(logBefore) {
						if ev.Note == "injected" {
							r.viol.Detail = "dump-" + ev.Op
						}
					}
					return r
				}
				return fail(i, op, "fault-swallowed", "a driver call failed during the operation but it returned no error (got %q)", got)
			}
		}
		// statements on an ended transaction
		if len(srv.Misuse) > 0 {
			return fail(i, op, "tx-misuse", "%s", srv.Misuse[0])
		}
		// (2) transaction accounting
		open := srv.OpenTx()
		if faulted {
			// every transaction the failing operation itself began is ended when it returns
			for _, ev := range srv.LogSince(logBefore) {
				if ev.Op == "begin" && ev.OK {
					for _, id := range open {
						if id == ev.Tx {
							return fail(i, op, "tx-left-open-after-fault", "the operation began transaction %d, a driver call failed, and the transaction is still open when it returns", id)
						}
					}
				}
			}
		}
		switch {
		case op.Kind == "close":
			if len(open) > 0 {
				return fail(i, op, "tx-left-open", "after Close transaction(s) %v are still open", open)
			}
		case len(open) > 1:
			return fail(i, op, "tx-left-open", "%d transactions open at once: %v", len(open), open)
		}
		_ = primBefore
		// reference semantics
		key, fallback := names(op.Key)
		if op.Kind == "get" && fallback != "" && !ref.free[key] {
			if _, ok := ref.vals[key]; !ok {
				// no translation entry: the default entry answers
				key = fallback
			}
		}
		if op.Kind == "dump" {
			res.dumps++
		}
		// an explicit transaction in which any operation failed promises nothing about
		// its writes any more
		if ref.explicit && err != nil && (op.Kind == "put" || op.Kind == "get" || op.Kind == "start") {
			ref.clean = false
			for k := range ref.pending {
				ref.free[k] = true
			}
		}
		switch op.Kind {
		case "put":
			if ref.explicit {
				res.multiPuts++
				if err != nil {
					ref.clean = false
				}
				ref.pending[key] = val
				// inside the transaction the handle sees its own write when all went well,
				// otherwise nothing is promised
				if err == nil && ref.clean {
					ref.vals[key] = val
					delete(ref.free, key)
				} else {
					ref.free[key] = true
				}
			} else if err == nil {
				ref.vals[key] = val
				delete(ref.free, key)
				// acknowledged outside an explicit transaction
				if sticky {
					stickyKeys[key] = true
					if tolerate("F-C13-1") {
						ref.free[key] = true
						res.tolerated = append(res.tolerated, "F-C13-1")
					}
				} else {
					delete(stickyKeys, key)
				}
			} else if !faulted && !ref.faultSeen {
				return fail(i, op, "put-fails-without-fault", "Put failed without any injected fault: %v", err)
			} else {
				// a failed write is not acknowledged; whether it shows is checked below as
				// "must not be visible" only in the fault-free tail (see get)
				if _, ok := ref.vals[key]; !ok {
					// stays absent
				}
			}
		case "get":
			if ref.explicit && err != nil {
				ref.clean = false
			}
			if ref.free[key] || faulted {
				break
			}
			want, present := ref.vals[key]
			if present {
				if err != nil {
					if i > lastFaultOp && wedgeFree(ref) {
						return stickyFail(fail(i, op, "acknowledged-write-lost", "Get failed (%v) but an acknowledged write stored %q", err, want), key)
					}
				} else if !bytes.Equal(got, want) {
					return stickyFail(fail(i, op, "wrong-value", "Get = %q, the acknowledged value is %q", got, want), key)
				}
			} else {
				if err == nil {
					return fail(i, op, "unacknowledged-visible", "Get returned %q for a key with no acknowledged write", got)
				}
				if !db.IsNotFound(err) && !faulted && i > lastFaultOp && wedgeFree(ref) {
					return fail(i, op, "wedged", "Get of a missing key fails with %q long after the fault instead of not-found", err)
				}
			}
		case "dump":
			if ref.explicit && err != nil {
				// Dump works in a transaction of its own; its failure says nothing about the
				// explicit one, which must go on (checked by the operations that follow)
			}
			if faulted || ref.faultSeen && i <= lastFaultOp {
				break
			}
			if op.Hold {
				// one entry was read: it has to be a right one, the rest is not looked at
				for name, gv := range dumped {
					if want, ok := ref.vals[name]; ok && !ref.free[name] && !ref.explicit && !bytes.Equal(gv, want) {
						return stickyFail(fail(i, op, "wrong-value", "Dump lists %s=%q first, the acknowledged value is %q", name, gv, want), name)
					}
				}
				break
			}
			n := 0
			for name, want := range ref.vals {
				if ref.free[name] || !strings.HasPrefix(name, op.Key) {
					continue
				}
				if _, pend := ref.pending[name]; pend && ref.explicit {
					continue // uncommitted: the dump's own transaction need not see it
				}
				n++
				if err != nil {
					return stickyFail(fail(i, op, "acknowledged-write-lost", "Dump failed (%v) although the acknowledged write %s=%q is in its range", err, name, want), name)
				}
				if gv, ok := dumped[name]; !ok || !bytes.Equal(gv, want) {
					return stickyFail(fail(i, op, "wrong-value", "Dump lists %s=%q (present %v), the acknowledged value is %q (all: %v)", name, gv, ok, want, fmtDump(dumped)), name)
				}
			}
			if n == 0 && err == nil {
				for name, gv := range dumped {
					if _, ok := ref.vals[name]; !ok && !ref.free[name] && !ref.explicit {
						if _, pend := ref.pending[name]; !pend {
							return fail(i, op, "unacknowledged-visible", "Dump lists %s=%q, a key with no acknowledged write", name, gv)
						}
					}
				}
			}
		case "start":
			if err == nil {
				if ref.explicit {
					// the implementation ended the previous explicit transaction on its own
					// (it rolls back when an operation inside fails): whatever that one wrote is
					// unconstrained, the new one starts clean
					for k := range ref.pending {
						ref.free[k] = true
					}
				}
				ref.explicit, ref.clean = true, true
				ref.pending = map[string][]byte{}
				sticky = true
			} else if ref.explicit {
				ref.clean = false
			} else if !faulted && !ref.faultSeen {
				if sticky && tolerate("F-C13-1") {
					res.tolerated = append(res.tolerated, "F-C13-1")
				} else {
					r := fail(i, op, "start-fails-without-fault", "Start failed without any injected fault: %v", err)
					if sticky {
						r.viol.Detail = "sticky-multi"
					}
					return r
				}
			}
		case "stop":
			// a Stop that reports success has committed something: an acknowledgement
			// without a commit would acknowledge writes that are gone
			if err == nil {
				committed := false
				for _, ev := range srv.LogSince(logBefore) {
					if ev.Op == "commit" && ev.OK {
						committed = true
					}
				}
				if !committed {
					return fail(i, op, "stop-acknowledges-nothing", "Stop returned no error although no transaction was committed by it (the explicit transaction had been rolled back, or there was none)")
				}
			}
			if ref.explicit {
				if err == nil && ref.clean {
					// (5) all writes of the transaction are visible to an independent reader
					for k, v := range ref.pending {
						cv, ok := srv.Committed(userKey(k))
						if !ok || !bytes.Equal(cv, v) {
							return fail(i, op, "stop-not-visible", "after a successful Stop the write %s=%q of the transaction is not committed (independent reader sees %q, %v)", k, v, cv, ok)
						}
					}
				} else {
					for k := range ref.pending {
						ref.free[k] = true
					}
				}
				ref.explicit = false
			}
		case "abort":
			if ref.explicit {
				if ref.clean && !ref.faultSeen {
					// (5) none of the transaction's writes is visible afterwards
					for k, v := range ref.pending {
						if cv, ok := srv.Committed(userKey(k)); ok && bytes.Equal(cv, v) {
							return fail(i, op, "abort-visible", "after Abort the write %s=%q of the transaction is committed", k, v)
						}
						// the handle's view falls back to what was acknowledged before
						delete(ref.vals, k)
						ref.free[k] = true
					}
				} else {
					for k := range ref.pending {
						ref.free[k] = true
					}
				}
				ref.explicit = false
			}
		case "close":
			if ref.explicit {
				// Close ends an open explicit transaction like Stop does
				if err == nil && ref.clean && !faulted {
					for k, v := range ref.pending {
						cv, ok := srv.Committed(userKey(k))
						if !ok || !bytes.Equal(cv, v) {
							return fail(i, op, "stop-not-visible", "after a successful Close the write %s=%q of the open transaction is not committed (independent reader sees %q, %v)", k, v, cv, ok)
						}
					}
				} else {
					for k := range ref.pending {
						ref.free[k] = true
					}
				}
				ref.explicit = false
			}
			// (6) committed state equals the acknowledged writes (modulo unconstrained keys)
			for k, want := range ref.vals {
				if ref.free[k] {
					continue
				}
				cv, ok := srv.Committed(userKey(k))
				if !ok || !bytes.Equal(cv, want) {
					return stickyFail(fail(i, op, "acknowledged-write-not-committed", "after Close the acknowledged write %s=%q is not in the committed state (found %q, %v)", k, want, cv, ok), k)
				}
			}
		}
		if i > lastFaultOp && lastFaultOp >= 0 {
			res.afterFault++
		}
	}
	res.prims = srv.Prim()
	return
}

func wedgeFree(ref *c13Ref) bool { return true }

func fmtDump(m map[string][]byte) string {
	var ks []string
	for k := range m {
		ks = append(ks, k)
	}
	sort.Strings(ks)
	var sb strings.Builder
	for _, k := range ks {
		fmt.Fprintf(&sb, "%s=%q ", k, m[k])
	}
	return sb.String()
}

func checkC13(c C13Case) (o Outcome) {
	for _, op := range c.Ops {
		switch op.Kind {
		case "put", "get", "start", "stop", "abort", "dump", "undump":
		case "lang":
			if op.Lang != "" && op.Lang != "nor" && op.Lang != "eng" {
				o.Discard = "unknown-language"
				return
			}
		default:
			o.Discard = "unknown-op"
			return
		}
	}
	r := runC13(c)
	o.Viol = r.viol
	o.Tolerated = r.tolerated
	o.NonTrivial = (r.faultFired > 0 && r.afterFault >= 2) || r.multiPuts >= 2
	if r.dumps > 0 {
		o.class("with-dump")
	}
	if c.Translated {
		o.class("translated")
	}
	if c.Lenient && r.faultFired > 0 {
		o.class("lenient-fault")
	}
	if r.faultFired > 0 {
		o.class("fault-fired:%d", min(r.faultFired, 2))
	} else if len(c.Faults) > 0 {
		o.class("fault-planned-not-reached")
	} else {
		o.class("fault-free")
	}
	return
}

var c13Alphabet = []C13Op{{Kind: "put", Key: "k1"}, {Kind: "put", Key: "k2"}, {Kind: "get", Key: "k1"}, {Kind: "get", Key: "k2"}, {Kind: "start"}, {Kind: "stop"}, {Kind: "abort"}}

var c13AlphabetTr = []C13Op{{Kind: "put", Key: "k1"}, {Kind: "get", Key: "k1"}, {Kind: "lang", Lang: "nor"}, {Kind: "lang", Lang: ""}, {Kind: "dump", Key: "k"}, {Kind: "start"}, {Kind: "stop"}}

var genC13Op = rapid.Custom(func(t *rapid.T) C13Op {
	switch k := uniformN(t, 22, "kind"); {
	case k < 7:
		return C13Op{Kind: "put", Key: []string{"k1", "k2", "k3"}[uniformN(t, 3, "key")]}
	case k < 13:
		return C13Op{Kind: "get", Key: []string{"k1", "k2", "k3"}[uniformN(t, 3, "key")]}
	case k < 15:
		return C13Op{Kind: "start"}
	case k < 17:
		return C13Op{Kind: "stop"}
	case k < 18:
		return C13Op{Kind: "dump", Key: []string{"k", "k1", "k2"}[uniformN(t, 3, "dumpkey")]}
	case k < 19:
		return C13Op{Kind: "lang", Lang: []string{"", "nor", "eng"}[uniformN(t, 3, "lang")]}
	case k < 20:
		return C13Op{Kind: "dump", Key: []string{"k", "k1", "k2"}[uniformN(t, 3, "dumpkey")], Hold: true}
	case k < 21:
		return C13Op{Kind: "undump"}
	}
	return C13Op{Kind: "abort"}
})

// genC13OpDead: now and then the caller's context is already done
var genC13OpDead = rapid.Custom(func(t *rapid.T) C13Op {
	op := genC13Op.Draw(t, "op")
	switch op.Kind {
	case "put", "get", "start", "stop", "abort":
		op.Dead = chancePct(t, 8, "dead")
	}
	return op
})

func genC13(t *rapid.T) C13Case {
	c := C13Case{Ops: genSlice(t, genC13OpDead, 1, 25, "ops"), Translated: chancePct(t, 30, "translated"), Lenient: chancePct(t, 30, "lenient"), Retryable: chancePct(t, 30, "retryable")}
	nf := uniformN(t, 3, "nfaults")
	// roughly three primitive calls per operation
	for i := 0; i < nf; i++ {
		c.Faults = append(c.Faults, rapid.IntRange(1, 3*len(c.Ops)+2).Draw(t, "fault"))
	}
	return c
}

func init() {
	knownPredicates["c13-sticky-multi-mode"] = func(sub string, raw json.RawMessage, v *Violation) bool {
		switch v.Kind {
		case "acknowledged-write-lost", "acknowledged-write-not-committed", "wrong-value", "start-fails-without-fault":
			return v.Detail == "sticky-multi"
		}
		return false
	}
}

var _ = registerReplay("C13", "enum", checkC13)
var _ = registerReplay("C13", "enum-tr", checkC13)
var _ = registerReplay("C13", "rand", checkC13)

func TestC13(t *testing.T) {
	runKnownExamples(t, "C13")
	maxLen, pairs, pairLen := 3, false, 0
	if tier() == "thorough" {
		maxLen, pairs, pairLen = 6, true, 5
	}
	idx, n := shardInfo()
	enum := func(alphabet []C13Op, translated bool, maxLen int, pairs bool, pairLen int) func(yield func(C13Case) bool) {
		return func(yield func(C13Case) bool) {
			k := 0
			var rec func(prefix []C13Op) bool
			rec = func(prefix []C13Op) bool {
				if len(prefix) > 0 {
					k++
					if k%n == idx {
						base := C13Case{Ops: append([]C13Op{}, prefix...), Translated: translated}
						if !yield(base) {
							return false
						}
						p := runC13(base).prims
						for f := 1; f <= p+1; f++ {
							if !yield(C13Case{Ops: base.Ops, Faults: []int{f}, Translated: translated}) {
								return false
							}
							if !yield(C13Case{Ops: base.Ops, Faults: []int{f}, Translated: translated, Lenient: true}) {
								return false
							}
							if pairs && len(base.Ops) <= pairLen {
								for g := f + 1; g <= p+2; g++ {
									if !yield(C13Case{Ops: base.Ops, Faults: []int{f, g}, Translated: translated}) {
										return false
									}
								}
							}
						}
					}
				}
				if len(prefix) == maxLen {
					return true
				}
				for _, op := range alphabet {
					if !rec(append(append([]C13Op{}, prefix...), op)) {
						return false
					}
				}
				return true
			}
			rec(nil)
		}
	}
	pairsText := map[bool]string{true: fmt.Sprintf(" and, for sequences up to length %d, every pair", pairLen), false: ""}[pairs]
	RunEnum(t, "C13", "enum", true, fmt.Sprintf("every sequence of 1..%d operations over {Put k1, Put k2, Get k1, Get k2, Start, Stop, Abort} (+ final Close) x no fault, every single failing primitive call%s; split over shards", maxLen, pairsText),
		enum(c13Alphabet, false, maxLen, pairs, pairLen), checkC13)
	if t.Failed() {
		return
	}
	RunEnum(t, "C13", "enum-tr", true, fmt.Sprintf("translatable data type with language switches and Dump: every sequence of 1..%d operations over {Put k1, Get k1, Lang nor, Lang -, Dump k, Start, Stop} (+ final Close), handle starting in language nor, x no fault, every single failing primitive call%s; split over shards", maxLen+1, pairsText),
		enum(c13AlphabetTr, true, maxLen+1, pairs, pairLen), checkC13)
	if t.Failed() {
		return
	}
	RunProp(t, "C13", "rand", pick(3000, 40000), genC13, checkC13)
}
