package props

// C08 — no sequence of client inputs can crash the engine or corrupt a session.
//
// sub "gen":  generated well-formed applications x junk-heavy histories, long-lived and
//             engine-per-request; after every request the engine's own State/Cache must
//             satisfy the consistency invariants and (persisted) the stored session must
//             load and equal what was saved
// sub "bfs":  the repository's example applications (examples/*/*.vis assembled with
//             asm.Parse, templates from the example directories, LOAD symbols bound to
//             stubs): every input sequence up to depth d over {each selector of the app,
//             "", an unknown selector, junk, an over-long input}
// sub "walk": random walks on the example applications with generated stub results

import (
	"regexp"
	"bytes"
	"context"
	"encoding/json"
	"fmt"
	"os"
	"path/filepath"
	"sort"
	"strings"
	"testing"

	"git.defalsify.org/vise.git/asm"
	"git.defalsify.org/vise.git/cache"
	"git.defalsify.org/vise.git/persist"
	"git.defalsify.org/vise.git/state"
	"pgregory.net/rapid"

	"verifharness/app"
	"verifharness/refdec"
)

type C08Case struct {
	App    *app.App `json:"app"`
	Inputs []BS     `json:"inputs"`
	Mode   app.Mode `json:"mode"`
}

// invariants checks the engine's own objects after a request.
func sessionInvariants(st *state.State, ca *cache.Cache) *Violation {
	if st == nil || ca == nil {
		return nil
	}
	if int(ca.Levels()) != len(st.ExecPath)+1 {
		return viol("levels-mismatch", "cache has %d scopes, navigation stack %v has %d levels (want levels = depth + 1)", ca.Levels(), st.ExecPath, len(st.ExecPath))
	}
	var sum uint64
	seen := map[string]int{}
	for i, f := range ca.Cache {
		for k, v := range f {
			sum += uint64(len(v))
			if j, dup := seen[k]; dup {
				return viol("key-in-two-scopes", "symbol %q is defined in scopes %d and %d", k, j, i)
			}
			seen[k] = i
			if _, ok := ca.Sizes[k]; !ok {
				return viol("no-limit-entry", "cached symbol %q has no size limit entry", k)
			}
		}
	}
	if uint64(ca.CacheUseSize) != sum {
		return viol("size-accounting", "CacheUseSize=%d but the cached values sum to %d bytes", ca.CacheUseSize, sum)
	}
	if ca.CacheSize > 0 && ca.CacheUseSize > ca.CacheSize {
		return viol("over-capacity", "CacheUseSize=%d exceeds the capacity %d", ca.CacheUseSize, ca.CacheSize)
	}
	return nil
}

func genC08(t *rapid.T) C08Case {
	o := fullOpts
	o.InternalSig = true
	o.PostCroak = true
	o.ResetEmpty = true
	o.Sloppy = chancePct(t, 15, "sloppy")
	a := GenApp(t, o)
	genFirst(t, a, 20, true)
	h := GenHistory(t, a, HistOpts{MaxLen: 14, Junk: true, Long: true, Refused: true})
	// repeat a random input many times (browse past the end, pile up descents)
	if chancePct(t, 30, "repeat") && len(h) > 1 {
		i := rapid.IntRange(1, len(h)-1).Draw(t, "repeatidx")
		n := rapid.IntRange(2, 40).Draw(t, "repeatn")
		rep := make([]string, n)
		for j := range rep {
			rep[j] = h[i]
		}
		h = append(h[:i], append(rep, h[i:]...)...)
	}
	c := C08Case{App: a, Inputs: toBS(h)}
	c.Mode = []app.Mode{{Kind: "long"}, {Kind: "persist", Backend: "mem"}, {Kind: "persist", Backend: "fs"}}[uniformN(t, 3, "mode")]
	return c
}

type c08Features struct {
	refused, catchVisit, browsePastEnd, junk bool
	sharedStore                              bool
	requests                                 int
}

// runC08 serves the history and checks crash-freedom and consistency.
func runC08(c C08Case) (v *Violation, f c08Features, discard string) {
	var storage app.Storage
	cleanup := func() {}
	if c.Mode.Kind != "long" {
		storage, cleanup = newStorage(c.Mode.Backend)
	}
	defer cleanup()
	shared := app.NewShared(c.App)
	if c.Mode.Kind == "persist" && c.Mode.Backend == "mem" && len(c.Inputs)%3 == 0 {
		// the application is served from a store (resource.DbResource), and that one store
		// object also holds the sessions - the set-up of the repository's examples/db
		shared.UseDb = true
		if d, err := storage.Open(context.Background()); err == nil {
			shared.DbStore = d
		}
		f.sharedStore = true
	}
	s := app.NewSession(shared, c.Mode, storage)
	var waiting []byte // pending bytecode of a session that is waiting for input
	firstSeen := 0
	for i, in := range c.Inputs {
		st := s.Request([]byte(in))
		f.requests++
		// "can still be continued": input the engine refuses does not take away what a
		// waiting session has left to run
		if !inputAccepted(string(in)) && st.Panic == "" && len(waiting) > 0 && st.After != nil && len(st.After.Code) == 0 {
			return viol("refused-input-ends-session", "request %d: the refused input %s left the waiting session without pending bytecode (%d bytes before): it cannot be continued", i, describeVal(string(in)), len(waiting)), f, ""
		}
		if inputAccepted(string(in)) {
			waiting = nil
			if st.Cont && st.ExecErr == "" && st.After != nil {
				waiting = st.After.Code
			}
		}
		if st.Exceeded {
			return nil, f, "move-budget"
		}
		if st.Panic != "" && strings.HasPrefix(st.Panic, "down into same node") && !strings.Contains(st.Panic, "'_first'") && appMovesTo(c.App, selfMoveTarget(st.Panic)) {
			// the documented precondition "no node moves to itself", violated dynamically:
			// pending code of one node executed a move to the node that is current. The
			// generator avoids the static shapes; what remains is outside the domain.
			return nil, f, "dynamic-self-move"
		}
		if st.Panic != "" {
			return &Violation{Kind: "panic", Msg: fmt.Sprintf("request %d (input %s) panics in %s: %s", i, describeVal(string(in)), st.PanicAt, st.Panic), Detail: st.Stack}, f, ""
		}
		if !inputAccepted(string(in)) {
			f.refused = true
		}
		if st.After != nil && len(st.After.Path) > 0 && st.After.Path[len(st.After.Path)-1] == "_catch" {
			f.catchVisit = true
		}
		if strings.Contains(st.FlushErr+st.ExecErr, "no more values") || strings.Contains(st.FlushErr+st.ExecErr, "out of bounds") || strings.Contains(st.ExecErr, "first index") {
			f.browsePastEnd = true
		}
		if bad := sessionInvariants(s.St, s.Ca); bad != nil {
			bad.Msg = fmt.Sprintf("after request %d (input %s, %s): %s", i, describeVal(string(in)), st.Visible(), bad.Msg)
			return bad, f, ""
		}
		if c.Mode.Kind == "persist" {
			if st.FinishErr != "" {
				return viol("save-failed", "after request %d (input %s): the session cannot be saved: %s", i, describeVal(string(in)), st.FinishErr), f, ""
			}
			if tolerate("F-C07-1") && st.After != nil && snapshotHasInvalidUTF8(st.After) {
				return nil, f, "known:F-C07-1"
			}
			// a request that the first function's run declined (blocked session) is not saved:
			// the engine's objects then need not equal the stored session
			saved := !(c.App.Cfg.First != nil && !st.Cont)
			if !inputAccepted(string(in)) && st.After == nil {
				continue // a refused request before the session exists: nothing is stored, nothing to load
			}
			if bad := snapshotRoundTrip(s, saved); bad != nil {
				bad.Msg = fmt.Sprintf("after request %d (input %s): %s", i, describeVal(string(in)), bad.Msg)
				return bad, f, ""
			}
		} else {
			// the long-lived session must be serialisable and decode to equal values
			if bad := serialisable(s); bad != nil {
				bad.Msg = fmt.Sprintf("after request %d (input %s): %s", i, describeVal(string(in)), bad.Msg)
				return bad, f, ""
			}
			if !st.Cont && st.ExecErr == "" {
				// Exec after cont=false is documented as undefined for one engine — unless the
				// request never got past the first function (refused or failed there): nothing
				// has ended, the engine is simply asked again
				if c.App.Cfg.First != nil && len(s.FirstSeen) > firstSeen && len(st.Calls) == 0 {
					firstSeen = len(s.FirstSeen)
					continue
				}
				break
			}
		}
	}
	return nil, f, ""
}

func checkC08(c C08Case) (o Outcome) {
	v, f, discard := runC08(c)
	if strings.HasPrefix(discard, "known:") {
		o.Tolerated = append(o.Tolerated, strings.TrimPrefix(discard, "known:"))
		return
	}
	o.Discard = discard
	o.Viol = v
	o.NonTrivial = f.refused && f.catchVisit
	o.class("mode:" + c.Mode.Kind + "/" + c.Mode.Backend)
	if f.browsePastEnd {
		o.class("browse-past-end")
	}
	if f.sharedStore {
		o.class("one-store-for-application-and-sessions")
	}
	if f.refused {
		o.class("has-refused")
	}
	if f.catchVisit {
		o.class("visits-catch")
	}
	return
}

// serialisable: State+Cache of a live session encode and decode to equal values.
func serialisable(s *app.Session) *Violation {
	if s.St == nil || s.Ca == nil {
		return nil
	}
	if snapshotHasInvalidUTF8(app.TakeSnapshot(s.St, s.Ca)) && tolerate("F-C07-1") {
		return nil
	}
	mem := app.NewMemStorage()
	tmp := &app.Session{Storage: mem, Cfg: s.Cfg, St: s.St, Ca: s.Ca}
	return saveAndCompare(tmp)
}

func saveAndCompare(s *app.Session) *Violation {
	store, err := s.Storage.Open(context.Background())
	if err != nil {
		return viol("storage-open", "%v", err)
	}
	pe := persist.NewPersister(store).WithContent(s.St, s.Ca)
	if err := pe.Save(s.Cfg.SessionId); err != nil {
		return viol("save-failed", "the session cannot be saved: %v", err)
	}
	return snapshotRoundTrip(s, true)
}

// --- example applications -------------------------------------------------------

type exampleApp struct {
	Name string
	App  *app.App
	Skip string
}

var examplesCache []exampleApp

func repoDir() string {
	if d := os.Getenv("VERIF_REPO"); d != "" {
		return d
	}
	return "/repo"
}

// loadExamples assembles the repository's example applications.
func loadExamples() []exampleApp {
	if examplesCache != nil {
		return examplesCache
	}
	dirs, _ := filepath.Glob(filepath.Join(repoDir(), "examples", "*"))
	sort.Strings(dirs)
	for _, d := range dirs {
		ex := exampleApp{Name: filepath.Base(d)}
		vis, _ := filepath.Glob(filepath.Join(d, "*.vis"))
		if len(vis) == 0 {
			continue
		}
		a := &app.App{Menus: map[string]string{}}
		maxFlag := uint32(0)
		loads := map[string]bool{}
		for _, f := range vis {
			src, err := os.ReadFile(f)
			if err != nil {
				ex.Skip = err.Error()
				break
			}
			var out bytes.Buffer
			var perr error
			if p := catchPanic(func() { _, perr = asm.Parse(string(src), &out) }); p != nil {
				ex.Skip = "assembler panics on " + filepath.Base(f)
				break
			}
			if perr != nil {
				ex.Skip = "does not assemble: " + filepath.Base(f) + ": " + perr.Error()
				break
			}
			ins, _, derr := refdec.DecodeAll(out.Bytes())
			if derr != nil {
				ex.Skip = "assembled bytecode malformed: " + filepath.Base(f)
				break
			}
			name := strings.TrimSuffix(filepath.Base(f), ".vis")
			tpl, _ := os.ReadFile(filepath.Join(d, name))
			a.Nodes = append(a.Nodes, app.Node{Name: name, Code: ins, Tpl: string(tpl)})
			for _, in := range ins {
				switch in.Op {
				case refdec.CATCH, refdec.CROAK:
					if in.Num > maxFlag {
						maxFlag = in.Num
					}
				case refdec.LOAD:
					loads[string(in.Sym)] = true
				}
			}
		}
		if ex.Skip == "" {
			if a.Node("root") == nil {
				ex.Skip = "no root node"
			}
		}
		if ex.Skip == "" {
			if a.Node("_catch") == nil {
				a.Nodes = append(a.Nodes, app.Node{Name: "_catch", Tpl: "catch", Code: []app.Instr{{Op: refdec.HALT}, {Op: refdec.INCMP, Sym: "_", Sel: "*"}}})
			}
			// well-formedness precondition: every named move target exists, no template uses
			// template actions other than placeholders
			for _, n := range a.Nodes {
				for _, in := range n.Code {
					switch in.Op {
					case refdec.MOVE, refdec.INCMP, refdec.CATCH:
						t := string(in.Sym)
						if len(t) == 1 && strings.Contains("_.^<>", t) {
							continue
						}
						if a.Node(t) == nil {
							ex.Skip = fmt.Sprintf("node %s moves to undefined node %s", n.Name, t)
						}
						if t == n.Name {
							ex.Skip = fmt.Sprintf("node %s moves to itself", n.Name)
						}
					}
				}
			}
			if maxFlag > 2000 {
				ex.Skip = "flag index too large"
			}
			if maxFlag >= 8 {
				a.Cfg.FlagCount = maxFlag - 7 + 2
			}
			for s := range loads {
				a.Syms = append(a.Syms, app.Sym{Name: s, Results: []app.Result{{Content: "val-" + s}}})
			}
			sort.Slice(a.Syms, func(i, j int) bool { return a.Syms[i].Name < a.Syms[j].Name })
		}
		ex.App = a
		examplesCache = append(examplesCache, ex)
	}
	return examplesCache
}

type C08Ex struct {
	Example    string    `json:"example"`
	Syms       []app.Sym `json:"syms,omitempty"` // generated stub scripts (walk); nil: defaults
	OutputSize uint32    `json:"output_size"`
	Inputs     []BS      `json:"inputs"`
	Mode       app.Mode  `json:"mode"`
}

func exampleByName(name string) *exampleApp {
	for i, e := range loadExamples() {
		if e.Name == name {
			return &loadExamples()[i]
		}
	}
	return nil
}

func checkC08Ex(c C08Ex) (o Outcome) {
	ex := exampleByName(c.Example)
	if ex == nil || ex.Skip != "" {
		o.Discard = "example-unavailable"
		return
	}
	a := *ex.App
	if c.Syms != nil {
		a.Syms = c.Syms
	}
	a.Cfg.OutputSize = c.OutputSize
	v, f, discard := runC08(C08Case{App: &a, Inputs: c.Inputs, Mode: c.Mode})
	if strings.HasPrefix(discard, "known:") {
		o.Tolerated = append(o.Tolerated, strings.TrimPrefix(discard, "known:"))
		return
	}
	o.Discard = discard
	o.Viol = v
	o.NonTrivial = len(c.Inputs) >= 2
	o.class("example:" + c.Example)
	if f.catchVisit {
		o.class("visits-catch")
	}
	return
}

func exampleAlphabet(a *app.App) []string {
	al := append([]string{}, a.Selectors()...)
	al = append(al, "", "zz9", "hello world", strings.Repeat("8", 300))
	return al
}

func init() {
	// F-C08-1: state.Down panics ("maxlevel") once the navigation stack is deeper than
	// state.MaxLevel; recognised by the panic value.
	knownPredicates["c08-maxlevel-panic"] = func(sub string, raw json.RawMessage, v *Violation) bool {
		return v.Kind == "panic" && strings.Contains(v.Msg, "maxlevel")
	}
	// F-C08-2: CROAK purges the cache scopes but keeps the navigation stack. Recognised
	// when the consistency failure disappears after removing the CROAK instructions.
	knownPredicates["c08-croak-levels"] = func(sub string, raw json.RawMessage, v *Violation) bool {
		if v.Kind != "levels-mismatch" {
			return false
		}
		var c C08Case
		if sub == "gen" {
			if json.Unmarshal(raw, &c) != nil {
				return false
			}
		} else {
			var e C08Ex
			if json.Unmarshal(raw, &e) != nil {
				return false
			}
			ex := exampleByName(e.Example)
			if ex == nil || ex.Skip != "" {
				return false
			}
			a := *ex.App
			a.Nodes = append([]app.Node{}, ex.App.Nodes...)
			if e.Syms != nil {
				a.Syms = e.Syms
			}
			a.Cfg.OutputSize = e.OutputSize
			c = C08Case{App: &a, Inputs: e.Inputs, Mode: e.Mode}
		}
		had := false
		for i := range c.App.Nodes {
			var code []app.Instr
			for _, in := range c.App.Nodes[i].Code {
				if in.Op == refdec.CROAK {
					had = true
					continue
				}
				code = append(code, in)
			}
			c.App.Nodes[i].Code = code
		}
		if !had {
			return false
		}
		v2, _, _ := runC08(c)
		return v2 == nil || v2.Kind != "levels-mismatch"
	}
}

var _ = registerReplay("C08", "gen", checkC08)
var _ = registerReplay("C08", "bfs", checkC08Ex)
var _ = registerReplay("C08", "walk", checkC08Ex)

func TestC08(t *testing.T) {
	runKnownExamples(t, "C08")
	RunProp(t, "C08", "gen", pick(1500, 15000), genC08, checkC08)
	if t.Failed() {
		return
	}
	exs := loadExamples()
	var usable []string
	for _, e := range exs {
		if e.Skip != "" {
			stats.note("example %s skipped: %s", e.Name, e.Skip)
		} else {
			usable = append(usable, e.Name)
		}
	}
	if len(usable) == 0 {
		t.Fatalf("no example application could be loaded from %s/examples", repoDir())
	}
	depth := 3
	if tier() == "thorough" {
		depth = 5
	}
	idx, n := shardInfo()
	RunEnum(t, "C08", "bfs", true, fmt.Sprintf("every input sequence of length 1..%d after the opening request over each example's selector alphabet + {\"\", unknown selector, junk, 300-byte input}; default stubs; long-lived and engine-per-request (mem); split over shards", depth),
		func(yield func(C08Ex) bool) {
			k := 0
			for _, name := range usable {
				al := exampleAlphabet(exampleByName(name).App)
				if len(al) > 9 && tier() != "thorough" {
					al = append(al[:5], al[len(al)-4:]...)
				}
				var rec func(prefix []BS, d int) bool
				rec = func(prefix []BS, d int) bool {
					if d > 0 {
						for _, mode := range []app.Mode{{Kind: "long"}, {Kind: "persist", Backend: "mem"}} {
							k++
							if k%n != idx {
								continue
							}
							if !yield(C08Ex{Example: name, Inputs: append([]BS{""}, prefix...), Mode: mode}) {
								return false
							}
						}
					}
					if d == depth {
						return true
					}
					for _, s := range al {
						if !rec(append(append([]BS{}, prefix...), BS(s)), d+1) {
							return false
						}
					}
					return true
				}
				// only maximal sequences need to run (every prefix is executed on the way),
				// but running each depth separately keeps replays minimal
				if !rec(nil, 0) {
					return
				}
			}
		}, checkC08Ex)
	if t.Failed() {
		return
	}
	RunProp(t, "C08", "walk", pick(600, 8000), func(t *rapid.T) C08Ex {
		name := usable[uniformN(t, len(usable), "example")]
		a := exampleByName(name).App
		g := &appGen{t: t, o: fullOpts, a: &app.App{Cfg: a.Cfg}, sizes: map[string]uint32{}}
		var syms []app.Sym
		for _, s := range a.Syms {
			sp := g.genSym(s.Name, chancePct(t, 20, "multirow"))
			syms = append(syms, sp)
		}
		al := exampleAlphabet(a)
		in := rapid.SliceOfN(rapid.Custom(func(t *rapid.T) string {
			if chancePct(t, 10, "refused") {
				return genRefused.Draw(t, "r")
			}
			return al[uniformN(t, len(al), "a")]
		}), 1, 60).Draw(t, "inputs")
		c := C08Ex{Example: name, Syms: syms, Inputs: append([]BS{""}, toBS(in)...)}
		if chancePct(t, 50, "sized") {
			c.OutputSize = uint32(rapid.IntRange(20, 200).Draw(t, "outsize"))
		}
		c.Mode = []app.Mode{{Kind: "long"}, {Kind: "persist", Backend: "mem"}, {Kind: "persist", Backend: "fs"}}[uniformN(t, 3, "mode")]
		return c
	}, checkC08Ex)
}

var reSelfMove = regexp.MustCompile(`-> '([^']*)'`)

// selfMoveTarget: the node named by the state package's "down into same node" panic.
func selfMoveTarget(msg string) string {
	if m := reSelfMove.FindStringSubmatch(msg); m != nil {
		return m[1]
	}
	return ""
}

// appMovesTo: some instruction of the application moves to that node by name (only then can
// the application's own code have moved a node to itself; a move the engine queues is the
// library's business).
func appMovesTo(a *app.App, target string) bool {
	if target == "" {
		return true
	}
	for i := range a.Nodes {
		for _, in := range a.Nodes[i].Code {
			if (in.Op == refdec.MOVE || in.Op == refdec.INCMP || in.Op == refdec.CATCH) && string(in.Sym) == target {
				return true
			}
		}
	}
	return false
}
