package props

// C14 — bytecode encoding and decoding are exact inverses.
//
// sub "prog": generated instruction sequences over the full argument domains are
//   encoded with vm.NewLine (the repository's encoder) and with the independent
//   reference encoder; decoded one instruction at a time with vm.Parse*, as a whole
//   with ParseHandler.ParseAll (custom handlers) and ParseHandler.ToString, whose text
//   is read back by an independent line reader; and by the reference decoder.
// sub "int": the assembler's integer encoder (asm.writeSize via the verif hook)
//   against vm.ParseCroak/ParseLoad and the reference codec — every uint32 in the
//   thorough tier.
// sub "sym": every string length 1..255 through vm.NewLine and asm.writeSym.

import (
	"bytes"
	"fmt"
	"regexp"
	"strconv"
	"strings"
	"testing"

	"git.defalsify.org/vise.git/asm"
	"git.defalsify.org/vise.git/vm"
	"pgregory.net/rapid"

	"verifharness/refdec"
)

type Instr = refdec.Instr

type C14Case struct {
	Prog []Instr `json:"prog"`
}

var symGrammar = rapid.StringMatching(`[a-zA-Z][a-zA-Z0-9_]{0,11}`)
var selGrammar = rapid.OneOf(rapid.Just("*"), rapid.StringMatching(`[a-zA-Z0-9]{1,6}`))

func genLongLen(t *rapid.T, label string) int {
	return rapid.SampledFrom([]int{1, 2, 3, 127, 128, 129, 200, 253, 254, 255}).Draw(t, label)
}

// genString draws an instruction string argument: grammar-conformant text or, when
// binary is allowed, arbitrary bytes; lengths cover 1..255 with boundary bias.
func genString(t *rapid.T, label string, sel bool, binary bool) refdec.BS {
	switch rapid.IntRange(0, 9).Draw(t, label+"kind") {
	case 0, 1:
		// long grammar string
		n := genLongLen(t, label+"len")
		first := rapid.SampledFrom([]string{"a", "Z", "q"}).Draw(t, label+"first")
		fill := rapid.SampledFrom([]string{"b", "7", "_", "X"}).Draw(t, label+"fill")
		if sel && fill == "_" {
			fill = "0"
		}
		return refdec.BS(first + strings.Repeat(fill, n-1))
	case 2, 3:
		if binary {
			n := rapid.IntRange(1, 255).Draw(t, label+"blen")
			if rapid.Bool().Draw(t, label+"bshort") {
				n = rapid.IntRange(1, 6).Draw(t, label+"blen2")
			}
			b := rapid.SliceOfN(rapid.Byte(), n, n).Draw(t, label+"bytes")
			return refdec.BS(b)
		}
	}
	if sel {
		if chancePct(t, 15, label+"numedge") {
			// numbers at the edges of decimal and binary widths (the assembler reads an
			// all-digit selector as a number and writes it out again)
			return refdec.BS([]string{"10", "100", "1000", "1000000", "999999999", "1000000000", "2147483647", "2147483648", "3999999999", "4000000000", "4294967295", "65535", "65536", "255", "256"}[uniformN(t, 15, label+"numedgev")])
		}
		return refdec.BS(selGrammar.Draw(t, label))
	}
	return refdec.BS(symGrammar.Draw(t, label))
}

var u32Boundaries = []uint32{0, 1, 2, 7, 8, 9, 127, 128, 254, 255, 256, 257, 65534, 65535, 65536, 65537, 1<<24 - 1, 1 << 24, 1<<24 + 1, 1<<31 - 1, 1 << 31, 1<<32 - 2, 1<<32 - 1}

func genU32(t *rapid.T, label string) uint32 {
	switch rapid.IntRange(0, 3).Draw(t, label+"kind") {
	case 0:
		return rapid.SampledFrom(u32Boundaries).Draw(t, label)
	case 1:
		return rapid.Uint32Range(0, 300).Draw(t, label)
	}
	return rapid.Uint32().Draw(t, label)
}

func genInstr(t *rapid.T, binary bool) Instr {
	op := uint16(rapid.IntRange(1, 12).Draw(t, "op"))
	in := Instr{Op: op}
	si := 0
	for _, c := range refdec.Shape(op) {
		switch c {
		case 's':
			if si == 0 {
				in.Sym = genString(t, "sym", false, binary)
			} else {
				in.Sel = genString(t, "sel", op == refdec.INCMP || op >= refdec.MOUT, binary)
			}
			si++
		case 'i':
			in.Num = genU32(t, "num")
		case 'm':
			in.Mode = rapid.Bool().Draw(t, "mode")
		}
	}
	return in
}

var genInstrBin = rapid.Custom(func(t *rapid.T) Instr { return genInstr(t, true) })

// hashTwins: pairs of identifiers with equal sums under the usual non-cryptographic hash
// functions (FNV-1a 32, Java's 31-multiplier, CRC-32, djb2, Adler-32): a decoder that
// caches or interns strings by hash alone confuses them. Random strings practically
// never collide, so the pairs come from a dictionary (as one would seed a fuzzer).
var hashTwins = [][2]string{{"costarring", "liquid"}, {"declinate", "macallums"}, {"altarage", "zinke"}, {"Aa", "BB"}, {"AaAa", "BBBB"},
	{"plumless", "buckeroo"}, {"hetairas", "mentioner"}, {"heliotropes", "neurospora"}, {"aca", "bab"}}

func genC14(t *rapid.T) C14Case {
	var c C14Case
	if rapid.Bool().Draw(t, "binary") {
		c = C14Case{Prog: genSlice(t, genInstrBin, 1, 30, "prog")}
	} else {
		c = C14Case{Prog: genSlice(t, genInstrText, 1, 30, "prog")}
	}
	if chancePct(t, 6, "twins") {
		tw := hashTwins[uniformN(t, len(hashTwins), "twin")]
		a, b := refdec.BS(tw[0]), refdec.BS(tw[1])
		extra := [][]Instr{
			{{Op: refdec.MOVE, Sym: a}, {Op: refdec.MOVE, Sym: b}},
			{{Op: refdec.MOUT, Sym: a, Sel: "1"}, {Op: refdec.MOUT, Sym: b, Sel: "2"}},
			{{Op: refdec.INCMP, Sym: a, Sel: b}, {Op: refdec.INCMP, Sym: b, Sel: a}},
			{{Op: refdec.LOAD, Sym: a, Num: 1}, {Op: refdec.CATCH, Sym: b, Num: 8, Mode: true}},
		}[uniformN(t, 4, "twinshape")]
		c.Prog = append(c.Prog, extra...)
	}
	return c
}

// vmEncode encodes one instruction with the repository's own vm.NewLine.
func vmEncode(b []byte, in Instr) []byte {
	var strs []string
	var byteargs []byte
	var numargs []uint8
	for _, c := range refdec.Shape(in.Op) {
		switch c {
		case 's':
			if len(strs) == 0 {
				strs = append(strs, string(in.Sym))
			} else {
				strs = append(strs, string(in.Sel))
			}
		case 'i':
			byteargs = refdec.IntBytes(in.Num)
		case 'm':
			if in.Mode {
				numargs = []uint8{1}
			} else {
				numargs = []uint8{0}
			}
		}
	}
	return vm.NewLine(b, in.Op, strs, byteargs, numargs)
}

func vmEncodeAll(ins []Instr) []byte {
	b := []byte{}
	for _, in := range ins {
		b = vmEncode(b, in)
	}
	return b
}

// vmDecodeOne decodes the instruction at the head of b with vm.ParseOp + vm.Parse<Op>.
func vmDecodeOne(b []byte) (Instr, []byte, error) {
	var in Instr
	op, rest, err := vm.ParseOp(b)
	if err != nil {
		return in, rest, err
	}
	in.Op = uint16(op)
	var s1, s2 string
	switch op {
	case vm.CATCH:
		s1, in.Num, in.Mode, rest, err = vm.ParseCatch(rest)
	case vm.CROAK:
		in.Num, in.Mode, rest, err = vm.ParseCroak(rest)
	case vm.LOAD:
		s1, in.Num, rest, err = vm.ParseLoad(rest)
	case vm.RELOAD:
		s1, rest, err = vm.ParseReload(rest)
	case vm.MAP:
		s1, rest, err = vm.ParseMap(rest)
	case vm.MOVE:
		s1, rest, err = vm.ParseMove(rest)
	case vm.HALT:
		rest, err = vm.ParseHalt(rest)
	case vm.INCMP:
		s1, s2, rest, err = vm.ParseInCmp(rest)
	case vm.MSINK:
		rest, err = vm.ParseMSink(rest)
	case vm.MOUT:
		s1, s2, rest, err = vm.ParseMOut(rest)
	case vm.MNEXT:
		s1, s2, rest, err = vm.ParseMNext(rest)
	case vm.MPREV:
		s1, s2, rest, err = vm.ParseMPrev(rest)
	}
	in.Sym, in.Sel = refdec.BS(s1), refdec.BS(s2)
	return in, rest, err
}

// recordingHandler returns a ParseHandler whose callbacks append to *out.
func recordingHandler(out *[]Instr) *vm.ParseHandler {
	ph := vm.NewParseHandler()
	add := func(in Instr) error { *out = append(*out, in); return nil }
	ph.Catch = func(s string, n uint32, m bool) error {
		return add(Instr{Op: refdec.CATCH, Sym: refdec.BS(s), Num: n, Mode: m})
	}
	ph.Croak = func(n uint32, m bool) error { return add(Instr{Op: refdec.CROAK, Num: n, Mode: m}) }
	ph.Load = func(s string, n uint32) error { return add(Instr{Op: refdec.LOAD, Sym: refdec.BS(s), Num: n}) }
	ph.Reload = func(s string) error { return add(Instr{Op: refdec.RELOAD, Sym: refdec.BS(s)}) }
	ph.Map = func(s string) error { return add(Instr{Op: refdec.MAP, Sym: refdec.BS(s)}) }
	ph.Move = func(s string) error { return add(Instr{Op: refdec.MOVE, Sym: refdec.BS(s)}) }
	ph.Halt = func() error { return add(Instr{Op: refdec.HALT}) }
	ph.InCmp = func(s, v string) error { return add(Instr{Op: refdec.INCMP, Sym: refdec.BS(s), Sel: refdec.BS(v)}) }
	ph.MOut = func(s, v string) error { return add(Instr{Op: refdec.MOUT, Sym: refdec.BS(s), Sel: refdec.BS(v)}) }
	ph.MSink = func() error { return add(Instr{Op: refdec.MSINK}) }
	ph.MNext = func(s, v string) error { return add(Instr{Op: refdec.MNEXT, Sym: refdec.BS(s), Sel: refdec.BS(v)}) }
	ph.MPrev = func(s, v string) error { return add(Instr{Op: refdec.MPREV, Sym: refdec.BS(s), Sel: refdec.BS(v)}) }
	return ph
}

// readListing is an independent reader of the disassembler's text format
// (one instruction per line: NAME [arg [arg [arg]]], fields separated by one space).
func readListing(text string) ([]Instr, error) {
	var out []Instr
	if text == "" {
		return out, nil
	}
	if !strings.HasSuffix(text, "\n") {
		return nil, fmt.Errorf("listing does not end in a newline")
	}
	for ln, line := range strings.Split(strings.TrimSuffix(text, "\n"), "\n") {
		f := strings.Split(line, " ")
		op, ok := refdec.Codes[f[0]]
		if !ok {
			return nil, fmt.Errorf("line %d: unknown mnemonic %q", ln, f[0])
		}
		shape := refdec.Shape(op)
		if len(f)-1 != len(shape) {
			return nil, fmt.Errorf("line %d %q: %d arguments, want %d", ln, line, len(f)-1, len(shape))
		}
		in := Instr{Op: op}
		si := 0
		for i, c := range shape {
			a := f[i+1]
			switch c {
			case 's':
				if si == 0 {
					in.Sym = refdec.BS(a)
				} else {
					in.Sel = refdec.BS(a)
				}
				si++
			case 'i':
				n, err := strconv.ParseUint(a, 10, 32)
				if err != nil {
					return nil, fmt.Errorf("line %d: integer %q: %v", ln, a, err)
				}
				in.Num = uint32(n)
			case 'm':
				switch a {
				case "0":
				case "1":
					in.Mode = true
				default:
					return nil, fmt.Errorf("line %d: matchmode %q", ln, a)
				}
			}
		}
		out = append(out, in)
	}
	return out, nil
}

func textSafe(ins []Instr) bool {
	for _, in := range ins {
		for _, s := range []refdec.BS{in.Sym, in.Sel} {
			for i := 0; i < len(s); i++ {
				if s[i] <= 0x20 || s[i] >= 0x7f {
					return false
				}
			}
		}
	}
	return true
}

var reAsmSym = regexp.MustCompile(`^[a-zA-Z][a-zA-Z0-9_]*$`)
var reAsmSel = regexp.MustCompile(`^([a-zA-Z0-9]+|\*)$`)

func checkC14(c C14Case) (o Outcome) {
	ins := c.Prog
	enc := vmEncodeAll(ins)
	ref, err := refdec.EncodeAll(ins)
	if err != nil {
		o.Discard = "unencodable"
		return
	}
	if !bytes.Equal(enc, ref) {
		o.Viol = viol("encoders-disagree", "vm.NewLine gives %x, reference encoder %x", enc, ref)
		return
	}
	// 1. instruction by instruction with the VM's decoder
	rest := enc
	for i, want := range ins {
		wantLen := 0
		{
			one, _ := refdec.Encode(nil, want)
			wantLen = len(one)
		}
		got, r, err := vmDecodeOne(rest)
		if err != nil {
			o.Viol = viol("vm-decode-error", "instruction %d (%v): vm decoder fails: %v", i, want, err)
			return
		}
		if got != want {
			o.Viol = viol("vm-decode-args", "instruction %d: encoded %v, vm decoder returned %v", i, want, got)
			return
		}
		if len(rest)-len(r) != wantLen || !bytes.Equal(r, rest[wantLen:]) {
			o.Viol = viol("vm-decode-consumed", "instruction %d (%v): consumed %d bytes, its encoding has %d", i, want, len(rest)-len(r), wantLen)
			return
		}
		rest = r
	}
	// 2. ParseAll with recording handlers
	var seen []Instr
	if _, err := recordingHandler(&seen).ParseAll(enc); err != nil {
		o.Viol = viol("parseall-error", "ParseAll fails on a valid program: %v", err)
		return
	}
	if !refdec.Equal(seen, ins) {
		o.Viol = viol("parseall-list", "ParseAll visited %v, program is %v", seen, ins)
		return
	}
	// 2b. decoded arguments are values: what was decoded stays what it is when the caller
	// goes on to use its buffer for something else
	{
		buf := append([]byte(nil), enc...)
		var kept []Instr
		if _, err := recordingHandler(&kept).ParseAll(buf); err != nil {
			o.Viol = viol("parseall-error", "ParseAll fails on a valid program: %v", err)
			return
		}
		rest := buf
		var kept1 []Instr
		for range ins {
			got, r, err := vmDecodeOne(rest)
			if err != nil {
				break
			}
			kept1 = append(kept1, got)
			rest = r
		}
		for i := range buf {
			buf[i] = 0xAA
		}
		if !refdec.Equal(kept, ins) {
			o.Viol = viol("decoded-argument-is-a-view", "the arguments ParseAll handed out changed when the decoded buffer was overwritten afterwards: now %v, program is %v", kept, ins)
			return
		}
		if !refdec.Equal(kept1, ins) {
			o.Viol = viol("decoded-argument-is-a-view", "the arguments the Parse functions returned changed when the decoded buffer was overwritten afterwards: now %v, program is %v", kept1, ins)
			return
		}
	}
	// 3. disassembler text
	text, err := vm.NewParseHandler().WithDefaultHandlers().ToString(enc)
	if err != nil {
		o.Viol = viol("tostring-error", "ToString fails on a valid program: %v", err)
		return
	}
	if textSafe(ins) {
		back, err := readListing(text)
		if err != nil {
			o.Viol = viol("listing-unreadable", "disassembly %q: %v", text, err)
			return
		}
		if !refdec.Equal(back, ins) {
			o.Viol = viol("listing-differs", "disassembly lists %v, program is %v", back, ins)
			return
		}
		o.class("text-safe")
	} else {
		o.class("binary-strings")
	}
	// 3b. the disassembler object is reusable: a listing does not depend on what the same
	// handler parsed before (another valid program, a verify-only pass, a malformed one)
	{
		ph := vm.NewParseHandler().WithDefaultHandlers()
		first, err1 := ph.ToString(enc)
		half := vmEncodeAll(ins[:(len(ins)+1)/2])
		_, _ = ph.ParseAll(half)
		second, err2 := ph.ToString(enc)
		_, _ = ph.ToString(enc[:len(enc)-1]) // usually malformed
		third, err3 := ph.ToString(enc)
		if err1 != nil || err2 != nil || err3 != nil || first != text || second != text || third != text {
			o.Viol = viol("listing-depends-on-history", "a reused ParseHandler lists the same program differently: fresh %q; after ParseAll of another program %q (%v); after a failed ToString %q (%v)", text, second, err2, third, err3)
			return
		}
	}
	// 3c. the assembler, given the listing, gives the same answer whatever it was used for
	// before - in particular after a run whose output sink broke part-way
	if textSafe(ins) {
		var a1, a2 bytes.Buffer
		var e1, e2 error
		if p := catchPanic(func() {
			_, e1 = asm.Parse(text, &a1)
			asm.Parse(text, &failingWriter{after: a1.Len() / 2})
			_, e2 = asm.Parse(text, &a2)
		}); p != nil {
			// a listing need not be valid assembly source (a symbol like "0" is encodable, but
			// no identifier), and what the assembler does with invalid source is not this
			// property's subject: counted, not judged
			o.class("assembler-panics-on-listing")
			a1.Reset()
			a2.Reset()
			e1, e2 = fmt.Errorf("panic"), fmt.Errorf("panic")
		}
		// ... and where the assembler takes the listing, it writes the bytes the listing was
		// made from (selector shapes of known finding F-C16-1 aside)
		if e1 == nil && !bytes.Equal(a1.Bytes(), enc) {
			// (only for listings that are assembly source: identifiers as symbols, letters and
			// digits or the wildcard as selectors - any byte string is an encodable argument,
			// and what the assembler makes of "RELOAD #" is not this property's subject)
			bad := false
			for _, in := range ins {
				if knownBadSelector(string(in.Sel)) || (len(in.Sym) > 0 && !reAsmSym.MatchString(string(in.Sym))) || (len(in.Sel) > 0 && !reAsmSel.MatchString(string(in.Sel))) {
					bad = true
				}
			}
			if !bad {
				o.Viol = viol("assembler-disagrees", "the listing %q of %x assembles to %x", text, enc, a1.Bytes())
				return
			}
		}
		if (e1 == nil) != (e2 == nil) || !bytes.Equal(a1.Bytes(), a2.Bytes()) {
			o.Viol = viol("assembler-depends-on-history", "the listing %q assembles to %x (%v); after an assembly whose output failed half-way it assembles to %x (%v)", text, a1.Bytes(), e1, a2.Bytes(), e2)
			return
		}
	}
	// 4. reference decoder
	dec, _, derr := refdec.DecodeAll(enc)
	if derr != nil || !refdec.Equal(dec, ins) {
		o.Viol = viol("refdec-disagrees", "reference decoder: %v %v, program is %v", dec, derr, ins)
		return
	}
	ops := map[uint16]bool{}
	for _, in := range ins {
		ops[in.Op] = true
		if strings.Contains(refdec.Shape(in.Op), "i") && in.Num >= 256 {
			o.NonTrivial = true
		}
		if len(in.Sym) >= 128 || len(in.Sel) >= 128 {
			o.NonTrivial = true
			o.class("string>=128")
		}
	}
	if len(ops) >= 3 {
		o.NonTrivial = true
	}
	return
}

// --- integer encoder ---------------------------------------------------------

type C14Int struct {
	N uint32 `json:"n"`
}

func c14IntOK(n uint32) *Violation {
	b, err := asm.VerifWriteSize(n)
	if err != nil {
		return viol("asm-int-error", "assembler refuses to encode %d: %v", n, err)
	}
	want := refdec.EncodeInt(n)
	if !bytes.Equal(b, want) {
		return viol("asm-int-encoding", "assembler encodes %d as %x, canonical minimal encoding is %x", n, b, want)
	}
	// CROAK <n> 1
	got, mode, rest, err := vm.ParseCroak(append(append([]byte{}, b...), 1))
	if err != nil || got != n || !mode || len(rest) != 0 {
		return viol("vm-int-decode", "vm.ParseCroak(%x 01) = %d,%v,rest %x,%v; want %d,true", b, got, mode, rest, err, n)
	}
	// LOAD x <n> followed by a HALT
	in := append([]byte{1, 'x'}, b...)
	in = append(in, 0, 7)
	sym, got2, rest, err := vm.ParseLoad(in)
	if err != nil || sym != "x" || got2 != n || !bytes.Equal(rest, []byte{0, 7}) {
		return viol("vm-int-decode", "vm.ParseLoad(%x) = %q,%d,rest %x,%v; want x,%d,0007", in, sym, got2, rest, err, n)
	}
	return nil
}

func checkC14Int(c C14Int) (o Outcome) {
	o.Viol = c14IntOK(c.N)
	o.NonTrivial = c.N >= 256
	return
}

// --- string encoder ------------------------------------------------------------

type C14Sym struct {
	Len  int    `json:"len"`
	Fill string `json:"fill"`
}

func checkC14Sym(c C14Sym) (o Outcome) {
	s := strings.Repeat(c.Fill, c.Len)[:c.Len]
	a, err := asm.VerifWriteSym(s)
	if err != nil {
		o.Viol = viol("asm-sym-error", "assembler refuses a %d byte string: %v", c.Len, err)
		return
	}
	want := append([]byte{byte(c.Len)}, s...)
	if !bytes.Equal(a, want) {
		o.Viol = viol("asm-sym-encoding", "assembler encodes a %d byte string as %x…", c.Len, a[:min(len(a), 8)])
		return
	}
	line := vm.NewLine(nil, vm.MOVE, []string{s}, nil, nil)
	if !bytes.Equal(line[2:], a) {
		o.Viol = viol("encoders-disagree", "vm.NewLine and asm.writeSym disagree on a %d byte string", c.Len)
		return
	}
	got, rest, err := vm.ParseMove(append(line[2:], 0, 7))
	if err != nil || got != s || !bytes.Equal(rest, []byte{0, 7}) {
		o.Viol = viol("vm-sym-decode", "vm.ParseMove of a %d byte string: len %d, rest %x, %v", c.Len, len(got), rest, err)
		return
	}
	// two strings back to back
	two := vm.NewLine(nil, vm.INCMP, []string{s, s}, nil, nil)
	s1, s2, rest, err := vm.ParseInCmp(two[2:])
	if err != nil || s1 != s || s2 != s || len(rest) != 0 {
		o.Viol = viol("vm-sym-decode", "vm.ParseInCmp of two %d byte strings: %d,%d rest %d, %v", c.Len, len(s1), len(s2), len(rest), err)
		return
	}
	o.NonTrivial = c.Len >= 2
	return
}

var _ = registerReplay("C14", "prog", checkC14)
var _ = registerReplay("C14", "int", checkC14Int)
var _ = registerReplay("C14", "sym", checkC14Sym)

func TestC14(t *testing.T) {
	runKnownExamples(t, "C14")
	RunProp(t, "C14", "prog", pick(5000, 50000), genC14, checkC14)
	if t.Failed() {
		return
	}
	// every string length 1..255
	RunEnum(t, "C14", "sym", true, "every string length 1..255 x 2 fills through vm.NewLine, asm.writeSym, vm.ParseMove/ParseInCmp",
		func(yield func(C14Sym) bool) {
			for l := 1; l <= 255; l++ {
				for _, f := range []string{"a", "\xff\x00"} {
					if !yield(C14Sym{l, f}) {
						return
					}
				}
			}
		}, checkC14Sym)
	if t.Failed() {
		return
	}
	// integers
	idx, n := shardInfo()
	sweep := func(name string, lo, hi uint64, exhaustive bool, note string) bool {
		var cnt int64
		for v := lo + uint64(idx); v < hi; v += uint64(n) {
			cnt++
			if bad := c14IntOK(uint32(v)); bad != nil {
				o := Outcome{Viol: bad, NonTrivial: true}
				if fail, msg := handle("C14", "int", C14Int{uint32(v)}, o); fail {
					fmt.Printf("VERIF-VIOLATION property=C14 sub=int\n")
					t.Errorf("%s", msg)
					stats.addSubspace(name, cnt, false, note)
					return false
				}
			}
		}
		stats.mu.Lock()
		stats.Evals += cnt
		stats.mu.Unlock()
		stats.addSubspace(name, cnt, exhaustive, note)
		return true
	}
	if tier() == "thorough" {
		sweep("int-all-uint32", 0, 1<<32, true, "every uint32 through asm.writeSize -> vm.ParseCroak/ParseLoad and the reference codec (split over shards; exhaustive when all shards report)")
	} else {
		if !sweep("int-below-2^20", 0, 1<<20, true, "every value below 2^20") {
			return
		}
		for _, p := range []uint64{1 << 8, 1 << 16, 1 << 24, 1 << 32} {
			lo := p - 1024
			hi := p + 1024
			if hi > 1<<32 {
				hi = 1 << 32
			}
			if !sweep(fmt.Sprintf("int-window-%d", p), lo, hi, true, "window of +-1024 around a power of 256") {
				return
			}
		}
	}
	// boundary + random values also go through the per-case machinery so that they
	// are sampled, hashed and shrunk like every other case
	RunProp(t, "C14", "int", pick(20000, 200000), func(t *rapid.T) C14Int { return C14Int{genU32(t, "n")} }, checkC14Int)
	if t.Failed() {
		return
	}
	runConcC14(t)
	if t.Failed() {
		return
	}
	runC14Width(t)
}
