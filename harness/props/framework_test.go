package props

// Shared plumbing for every property check:
//   - RunProp: rapid.Check around (gen, check) with statistics, known-finding
//     tolerance and replay-file dumping
//   - stats: evaluations, distinct non-trivial hashes, class histogram, samples
//   - replay registry: ./check <ID> --replay <file> feeds the JSON case straight
//     to the check function, bypassing rapid
//   - known findings: /verif/known_findings.json, named predicates

import (
	"crypto/sha256"
	"encoding/binary"
	"encoding/json"
	"flag"
	"fmt"
	"io"
	"log"
	"os"
	"runtime/debug"
	"sort"
	"strconv"
	"strings"
	"sync"
	"testing"

	"pgregory.net/rapid"
)

// Violation describes one failed assertion of a check.
type Violation struct {
	Kind   string `json:"kind"`             // stable code of the assertion that failed
	Msg    string `json:"msg"`              // human readable
	Detail any    `json:"detail,omitempty"` // whatever helps
}

func viol(kind, format string, a ...any) *Violation {
	return &Violation{Kind: kind, Msg: fmt.Sprintf(format, a...)}
}

// Outcome is what a check function returns for one case.
type Outcome struct {
	Viol       *Violation
	NonTrivial bool
	Classes    []string // labels counted in the class histogram
	Discard    string   // non-empty: the case was outside the domain (counted, not a pass)
	// Tolerated lists known-finding ids the check function itself recognised and
	// stepped around while it kept checking the rest of the case.
	Tolerated []string
	// ExtraEvals: further executions against the implementation this case stands for
	// (e.g. the crash states enumerated for one traced history)
	ExtraEvals int
}

func (o *Outcome) class(format string, a ...any) {
	o.Classes = append(o.Classes, fmt.Sprintf(format, a...))
}

type subspace struct {
	Name       string `json:"name"`
	Evals      int64  `json:"evaluations"`
	Exhaustive bool   `json:"exhaustive"`
	Note       string `json:"note,omitempty"`
}

type statsT struct {
	mu            sync.Mutex
	Evals         int64             `json:"evaluations"`
	ShrinkEvals   int64             `json:"shrink_evaluations"`
	Discards      int64             `json:"discarded"`
	Violations    int64             `json:"violations"`
	Classes       map[string]int64  `json:"classes"`
	ExcludedKnown map[string]int64  `json:"excluded_known"`
	Samples       []json.RawMessage `json:"samples"`
	Subspaces     []subspace        `json:"subspaces"`
	Notes         []string          `json:"notes"`
	KnownLines    []string          `json:"known_lines"`
	NonTrivial    int64             `json:"nontrivial_total"`
	distinct      map[uint64]struct{}
	failing       bool
	bigSample     json.RawMessage
}

var stats = &statsT{
	Classes:       map[string]int64{},
	ExcludedKnown: map[string]int64{},
	distinct:      map[uint64]struct{}{},
}

func hash64(b []byte) uint64 {
	h := sha256.Sum256(b)
	return binary.LittleEndian.Uint64(h[:8])
}

const maxSamples = 6
const maxSampleBytes = 6000

// record accounts for one executed case.
func (s *statsT) record(sub string, c any, o Outcome) {
	s.mu.Lock()
	defer s.mu.Unlock()
	if s.failing {
		s.ShrinkEvals++
		return
	}
	if o.Discard != "" {
		s.Discards++
		s.Classes["discard:"+o.Discard]++
		return
	}
	s.Evals += 1 + int64(o.ExtraEvals)
	for _, c := range o.Classes {
		s.Classes[c]++
	}
	for _, k := range o.Tolerated {
		s.ExcludedKnown[k]++
	}
	if !o.NonTrivial {
		return
	}
	s.NonTrivial++
	raw, err := json.Marshal(c)
	if err != nil {
		panic("harness: case not serialisable: " + err.Error())
	}
	h := hash64(append([]byte(sub+"\x00"), raw...))
	if _, ok := s.distinct[h]; ok {
		return
	}
	s.distinct[h] = struct{}{}
	// deterministic sample selection: the first non-trivial case, then cases
	// whose hash falls in a sparse residue class, while room is left.
	n := len(s.distinct)
	if len(s.Samples) < maxSamples && (n == 1 || h%97 == 0 || (n > 200 && len(s.Samples) < 3)) {
		wrapped, _ := json.Marshal(map[string]any{"sub": sub, "case": json.RawMessage(raw)})
		if len(wrapped) <= maxSampleBytes {
			s.Samples = append(s.Samples, wrapped)
		} else if s.bigSample == nil {
			s.bigSample = wrapped[:maxSampleBytes]
		}
	}
}

func (s *statsT) addSubspace(name string, evals int64, exhaustive bool, note string) {
	s.mu.Lock()
	defer s.mu.Unlock()
	s.Subspaces = append(s.Subspaces, subspace{name, evals, exhaustive, note})
}

func (s *statsT) note(format string, a ...any) {
	s.mu.Lock()
	defer s.mu.Unlock()
	s.Notes = append(s.Notes, fmt.Sprintf(format, a...))
}

func (s *statsT) write(path string) error {
	s.mu.Lock()
	defer s.mu.Unlock()
	if len(s.Samples) == 0 && s.bigSample != nil {
		// only over-long samples seen: keep a truncated one as a string so the
		// evidence still shows what a case looks like
		q, _ := json.Marshal(string(s.bigSample) + "…(truncated)")
		s.Samples = append(s.Samples, q)
	}
	out := map[string]any{
		"evaluations":         s.Evals,
		"shrink_evaluations":  s.ShrinkEvals,
		"discarded":           s.Discards,
		"violations":          s.Violations,
		"classes":             s.Classes,
		"excluded_known":      s.ExcludedKnown,
		"samples":             s.Samples,
		"subspaces":           s.Subspaces,
		"notes":               s.Notes,
		"known_lines":         s.KnownLines,
		"nontrivial_total":    s.NonTrivial,
		"distinct_nontrivial": len(s.distinct),
	}
	b, err := json.MarshalIndent(out, "", " ")
	if err != nil {
		return err
	}
	if err := os.WriteFile(path, b, 0644); err != nil {
		return err
	}
	// hashes, so the driver can take the union over shards
	hs := make([]uint64, 0, len(s.distinct))
	for h := range s.distinct {
		hs = append(hs, h)
	}
	sort.Slice(hs, func(i, j int) bool { return hs[i] < hs[j] })
	hb := make([]byte, 8*len(hs))
	for i, h := range hs {
		binary.LittleEndian.PutUint64(hb[8*i:], h)
	}
	return os.WriteFile(path+".hashes", hb, 0644)
}

// ---------------------------------------------------------------------------
// tiers

func tier() string {
	if v := os.Getenv("VERIF_TIER"); v == "thorough" {
		return "thorough"
	}
	return "quick"
}

// scale multiplies case counts (VERIF_SCALE, float; default 1).
func scale() float64 {
	if v := os.Getenv("VERIF_SCALE"); v != "" {
		if f, err := strconv.ParseFloat(v, 64); err == nil && f > 0 {
			return f
		}
	}
	return 1
}

func pick(quick, thorough int) int {
	n := quick
	if tier() == "thorough" {
		n = thorough
	}
	n = int(float64(n) * scale())
	if n < 1 {
		n = 1
	}
	return n
}

func shardInfo() (idx, n int) {
	idx, _ = strconv.Atoi(os.Getenv("VERIF_SHARD"))
	n, _ = strconv.Atoi(os.Getenv("VERIF_SHARDS"))
	if n < 1 {
		n = 1
	}
	return
}

func setChecks(n int) {
	if err := flag.Set("rapid.checks", strconv.Itoa(n)); err != nil {
		panic(err)
	}
}

func setSteps(n int) {
	if err := flag.Set("rapid.steps", strconv.Itoa(n)); err != nil {
		panic(err)
	}
}

// ---------------------------------------------------------------------------
// replay

type replayFile struct {
	Property  string          `json:"property"`
	Sub       string          `json:"sub"`
	Case      json.RawMessage `json:"case"`
	Violation *Violation      `json:"violation,omitempty"`
}

var replayers = map[string]func(raw json.RawMessage) Outcome{}

func replayKey(id, sub string) string { return id + "/" + sub }

func registerReplay[C any](id, sub string, check func(C) Outcome) bool {
	replayers[replayKey(id, sub)] = func(raw json.RawMessage) Outcome {
		var c C
		dec := json.NewDecoder(strings.NewReader(string(raw)))
		if err := dec.Decode(&c); err != nil {
			panic("replay: cannot decode case: " + err.Error())
		}
		return check(c)
	}
	return true
}

func writeReplay(id, sub string, c any, v *Violation) string {
	path := os.Getenv("VERIF_REPLAY_OUT")
	if path == "" {
		return ""
	}
	raw, err := json.Marshal(c)
	if err != nil {
		return ""
	}
	b, _ := json.MarshalIndent(replayFile{Property: id, Sub: sub, Case: raw, Violation: v}, "", " ")
	_ = os.WriteFile(path, b, 0644)
	return path
}

// TestReplay re-runs one saved case: VERIF_REPLAY=<file>.
func TestReplay(t *testing.T) {
	path := os.Getenv("VERIF_REPLAY")
	if path == "" {
		t.Skip("VERIF_REPLAY not set")
	}
	b, err := os.ReadFile(path)
	if err != nil {
		t.Fatal(err)
	}
	var rf replayFile
	if err := json.Unmarshal(b, &rf); err != nil {
		t.Fatal(err)
	}
	fn, ok := replayers[replayKey(rf.Property, rf.Sub)]
	if !ok {
		t.Fatalf("no replayer for %s/%s", rf.Property, rf.Sub)
	}
	if rf.Property == "C17" {
		enableCustomInputFormat() // as the C17 check's own process does
	}
	o := fn(rf.Case)
	stats.record(rf.Sub, rf.Case, o)
	if o.Viol != nil {
		if kf := explainedByKnown(rf.Property, rf.Sub, rf.Case, o.Viol); kf != "" {
			fmt.Printf("KNOWN-FINDING: property=%s %s\n", rf.Property, knownByID[kf].What)
			return
		}
		fmt.Printf("VERIF-VIOLATION property=%s sub=%s kind=%s msg=%s\n", rf.Property, rf.Sub, o.Viol.Kind, oneLine(o.Viol.Msg))
		os.Setenv("VERIF_REPLAY_OUT", os.Getenv("VERIF_REPLAY_OUT"))
		writeReplayRaw(rf.Property, rf.Sub, rf.Case, o.Viol)
		t.Fatalf("replayed case violates %s: %s", rf.Property, o.Viol.Msg)
	}
	seen := map[string]bool{}
	for _, id := range o.Tolerated {
		if k, ok := knownByID[id]; ok && !seen[id] {
			seen[id] = true
			fmt.Printf("KNOWN-FINDING: property=%s %s [%s]\n", k.Property, k.What, id)
		}
	}
	fmt.Printf("replayed case holds for %s/%s\n", rf.Property, rf.Sub)
}

func writeReplayRaw(id, sub string, raw json.RawMessage, v *Violation) {
	path := os.Getenv("VERIF_REPLAY_OUT")
	if path == "" {
		return
	}
	b, _ := json.MarshalIndent(replayFile{Property: id, Sub: sub, Case: raw, Violation: v}, "", " ")
	_ = os.WriteFile(path, b, 0644)
}

func oneLine(s string) string {
	s = strings.ReplaceAll(s, "\n", "\\n")
	if len(s) > 400 {
		s = s[:400] + "…"
	}
	return s
}

// ---------------------------------------------------------------------------
// known findings

type knownFinding struct {
	ID        string          `json:"id"`
	Status    string          `json:"status"` // "known" | "fixed"
	Property  string          `json:"property"`
	Site      string          `json:"site,omitempty"`
	Predicate string          `json:"predicate,omitempty"`
	What      string          `json:"what"`
	Commit    string          `json:"commit,omitempty"`
	Sub       string          `json:"sub,omitempty"`
	Example   json.RawMessage `json:"example,omitempty"`
}

var (
	knownList []knownFinding
	knownByID = map[string]knownFinding{}
	// knownPredicates: name -> does this (sub, case, violation) show exactly that defect?
	knownPredicates = map[string]func(sub string, raw json.RawMessage, v *Violation) bool{}
)

func loadKnown() {
	path := os.Getenv("VERIF_KNOWN")
	if path == "" {
		path = "/verif/known_findings.json"
	}
	b, err := os.ReadFile(path)
	if err != nil {
		return
	}
	var f struct {
		Findings []knownFinding `json:"findings"`
	}
	if err := json.Unmarshal(b, &f); err != nil {
		panic("known_findings.json: " + err.Error())
	}
	knownList = f.Findings
	for _, k := range knownList {
		knownByID[k.ID] = k
	}
}

// isKnown reports whether a finding id is listed with status "known".
func isKnown(id string) bool {
	k, ok := knownByID[id]
	return ok && k.Status == "known"
}

// examplesRunning is set while the listed examples are replayed: in-check tolerance
// is then off, so that an example really has to fail the way its entry says.
var examplesRunning bool

// tolerate reports whether a check may step around the listed known finding id.
func tolerate(id string) bool {
	return isKnown(id) && !examplesRunning
}

// explainedByKnown returns the id of a listed known finding whose predicate
// recognises this failing case, or "".
func explainedByKnown(prop, sub string, raw json.RawMessage, v *Violation) string {
	for _, k := range knownList {
		if k.Status != "known" || k.Property != prop {
			continue
		}
		p, ok := knownPredicates[k.Predicate]
		if !ok {
			continue
		}
		if p(sub, raw, v) {
			return k.ID
		}
	}
	return ""
}

// runKnownExamples replays the example of every listed known finding of a
// property and prints the KNOWN-FINDING line when it still fails that way.
func runKnownExamples(t *testing.T, prop string) {
	examplesRunning = true
	defer func() { examplesRunning = false }()
	for _, k := range knownList {
		if k.Property != prop || k.Example == nil {
			continue
		}
		fn, ok := replayers[replayKey(prop, k.Sub)]
		if !ok {
			t.Fatalf("known finding %s: no replayer for %s/%s", k.ID, prop, k.Sub)
		}
		o := fn(k.Example)
		switch k.Status {
		case "known":
			reproduced := false
			if o.Viol != nil {
				p := knownPredicates[k.Predicate]
				if p != nil && p(k.Sub, k.Example, o.Viol) {
					reproduced = true
				} else {
					// the listed example now fails in a different way: that is a new violation
					stats.Violations++
					writeReplayRaw(prop, k.Sub, k.Example, o.Viol)
					fmt.Printf("VERIF-VIOLATION property=%s sub=%s kind=%s msg=%s\n", prop, k.Sub, o.Viol.Kind, oneLine(o.Viol.Msg))
					t.Fatalf("example of %s fails differently: %s", k.ID, o.Viol.Msg)
				}
			}
			for _, id := range o.Tolerated {
				if id == k.ID {
					reproduced = true
				}
			}
			if reproduced {
				line := fmt.Sprintf("KNOWN-FINDING: property=%s %s [%s at %s]", prop, k.What, k.ID, k.Site)
				fmt.Println(line)
				stats.KnownLines = append(stats.KnownLines, line)
			} else {
				stats.note("known finding %s no longer reproduces on this tree", k.ID)
			}
		case "fixed":
			// a fixed entry suppresses nothing: its example is a regression case
			stats.record(k.Sub, k.Example, o)
			if o.Viol != nil {
				stats.Violations++
				writeReplayRaw(prop, k.Sub, k.Example, o.Viol)
				fmt.Printf("VERIF-VIOLATION property=%s sub=%s kind=%s msg=%s\n", prop, k.Sub, o.Viol.Kind, oneLine(o.Viol.Msg))
				t.Fatalf("regression: fixed finding %s is back: %s", k.ID, o.Viol.Msg)
			}
		}
	}
}

// ---------------------------------------------------------------------------
// RunProp

// safeCheck turns a panic inside the check function (harness bug or
// implementation panic not caught by the check) into a violation so that it is
// shrunk and dumped like any other failure.
func safeCheck[C any](check func(C) Outcome, c C) (o Outcome) {
	defer func() {
		if r := recover(); r != nil {
			o = Outcome{Viol: &Violation{Kind: "panic", Msg: fmt.Sprintf("panic: %v", r), Detail: string(debug.Stack())}}
		}
	}()
	return check(c)
}

// handle accounts for a case and reports whether it must fail the test.
func handle(prop, sub string, c any, o Outcome) (fail bool, msg string) {
	if o.Viol != nil && !stats.failing {
		raw, _ := json.Marshal(c)
		if kf := explainedByKnown(prop, sub, raw, o.Viol); kf != "" {
			o.Tolerated = append(o.Tolerated, kf)
			o.Viol = nil
			o.NonTrivial = false
		}
	} else if o.Viol != nil {
		// while shrinking: a candidate that only shows a known finding is not a failure
		raw, _ := json.Marshal(c)
		if kf := explainedByKnown(prop, sub, raw, o.Viol); kf != "" {
			o.Viol = nil
		}
	}
	stats.record(sub, c, o)
	if o.Viol == nil {
		return false, ""
	}
	stats.mu.Lock()
	if !stats.failing {
		stats.failing = true
		stats.Violations++
	}
	stats.mu.Unlock()
	writeReplay(prop, sub, c, o.Viol)
	return true, fmt.Sprintf("%s/%s violated [%s]: %s", prop, sub, o.Viol.Kind, o.Viol.Msg)
}

// RunProp drives one generated check with rapid.
func RunProp[C any](t *testing.T, prop, sub string, n int, gen func(*rapid.T) C, check func(C) Outcome) {
	t.Helper()
	setChecks(n)
	defer func() {
		if t.Failed() {
			fmt.Printf("VERIF-VIOLATION property=%s sub=%s\n", prop, sub)
		}
	}()
	rapid.Check(t, func(rt *rapid.T) {
		c := gen(rt)
		o := safeCheck(check, c)
		if fail, msg := handle(prop, sub, c, o); fail {
			rt.Fatalf("%s", msg)
		}
	})
}

// RunEnum drives a deterministic enumeration (no rapid): next returns false
// when the space is used up.
func RunEnum[C any](t *testing.T, prop, sub string, exhaustive bool, note string, each func(yield func(C) bool), check func(C) Outcome) {
	t.Helper()
	var n int64
	failed := false
	each(func(c C) bool {
		n++
		o := safeCheck(check, c)
		if fail, msg := handle(prop, sub, c, o); fail {
			failed = true
			fmt.Printf("VERIF-VIOLATION property=%s sub=%s\n", prop, sub)
			t.Errorf("%s", msg)
			return false
		}
		return true
	})
	stats.addSubspace(sub, n, exhaustive && !failed, note)
}

// ---------------------------------------------------------------------------

func TestMain(m *testing.M) {
	log.SetOutput(io.Discard) // asm logs through the global logger
	loadKnown()
	code := m.Run()
	if p := os.Getenv("VERIF_STATS"); p != "" {
		if err := stats.write(p); err != nil {
			fmt.Fprintln(os.Stderr, "stats:", err)
			if code == 0 {
				code = 3
			}
		}
	}
	os.Exit(code)
}
