package props

// C05 — loaded symbols live exactly as long as their stack level.
// C06 — signal flags steer control flow and the reserved ones are tamper-proof.

import (
	"bytes"
	"context"
	"encoding/json"
	"fmt"
	"testing"

	"git.defalsify.org/vise.git/cache"
	"git.defalsify.org/vise.git/persist"
	"git.defalsify.org/vise.git/state"
	"pgregory.net/rapid"

	"verifharness/app"
	"verifharness/model"
	"verifharness/refdec"
)

var c05Opts = GenOpts{MaxNodes: 5, MultiHalt: true, Sinks: true, EchoInput: true, NoEndNodes: true, Errors: true, ResetEmpty: true, CacheSize: true}

func genC05(t *rapid.T) ModelCase {
	o := c05Opts
	o.Big = chancePct(t, 4, "big")
	o.CacheSize = chancePct(t, 25, "cachesize")
	// languages: what a LOAD or RELOAD stores is the result in the language selected when
	// it runs, also for static symbols served from a db (resource.DbResource)
	o.Langs = chancePct(t, 30, "langs")
	a := GenApp(t, o)
	modelFriendly(a)
	mode := modelModes[uniformN(t, len(modelModes), "mode")]
	c := ModelCase{App: a, Mode: mode}
	c.UseDb = o.Langs && chancePct(t, 70, "usedb")
	if mode.Kind == "persist" && chancePct(t, 35, "reuse") {
		// a server that keeps one flushing persister: another session has been there before
		c.Mode.Reuse = "flush"
		c.Prior = genGuidedHistory(t, a, 8, true)
	}
	c.Inputs = genGuidedHistory(t, a, 14, mode.PerRequest())
	return c
}

func checkC05(c ModelCase) (o Outcome) {
	asp := diffAspects{position: true, calls: true, cache: true, output: true, cont: true}
	v, f, discard := modelDiff(c.App, c.Inputs, c.Mode, asp, &diffHooks{prior: c.Prior, useDb: c.UseDb})
	if c.Mode.Reuse != "" {
		o.class("reused-flushing-persister")
	}
	if c.UseDb {
		o.class("served-by-DbResource")
	}
	o.Viol, o.Discard = v, discard
	// a result exactly at / one over its limit somewhere in the scripts?
	boundary := false
	for _, n := range c.App.Nodes {
		for _, in := range n.Code {
			if in.Op == refdec.LOAD && in.Num > 0 {
				if sp := c.App.Sym(string(in.Sym)); sp != nil {
					for _, r := range sp.Results {
						if l := len(r.Content); l == int(in.Num) || l == int(in.Num)+1 {
							boundary = true
						}
					}
				}
			}
		}
	}
	o.NonTrivial = (f.reentered && f.ascents+f.rewinds > 0) || f.reloaded || (boundary && f.requests >= 2)
	if f.reentered {
		o.class("re-entered-node")
	}
	if f.reloaded {
		o.class("repeated-call")
	}
	if boundary {
		o.class("result-at-limit-boundary")
	}
	if f.loadfail {
		o.class("loadfail")
	}
	if f.bail != "" {
		o.class("stopped:" + f.bail)
	}
	return
}

// (the operator steps of these checks reach into the store or the live engine: the modes they know)
var c06Modes = []app.Mode{{Kind: "long"}, {Kind: "long"}, {Kind: "persist", Backend: "mem"}}

var c06Opts = GenOpts{MaxNodes: 4, MultiHalt: true, Flags: true, ReservedFl: true, EchoInput: true, NoEndNodes: true, Errors: true, RelCatch: true, PostCroak: true, ResetEmpty: true}

// clearTerminate is the operator step: code outside the VM clears TERMINATE.
func clearTerminate(real *app.Session, m *model.Session) {
	m.ClearTerminate()
	switch real.Mode.Kind {
	case "long", "long+persist":
		if real.St != nil {
			real.St.ResetFlag(state.FLAG_TERMINATE)
		}
	case "persist":
		ctx := context.Background()
		store, err := real.Storage.Open(ctx)
		if err != nil {
			return
		}
		pe := persist.NewPersister(store).WithContent(state.NewState(real.Cfg.FlagCount), cache.NewCache())
		if err := pe.Load(real.Cfg.SessionId); err != nil {
			return
		}
		pe.GetState().ResetFlag(state.FLAG_TERMINATE)
		pe.Save(real.Cfg.SessionId)
	}
}

// operatorFlag changes TERMINATE from outside the VM, on the live state or on the stored one.
func operatorFlag(real *app.Session, set bool) bool {
	apply := func(st *state.State) {
		if set {
			st.SetFlag(state.FLAG_TERMINATE)
		} else {
			st.ResetFlag(state.FLAG_TERMINATE)
		}
	}
	switch real.Mode.Kind {
	case "long", "long+persist":
		if real.St == nil {
			return false
		}
		apply(real.St)
		return true
	case "persist":
		ctx := context.Background()
		store, err := real.Storage.Open(ctx)
		if err != nil {
			return false
		}
		pe := persist.NewPersister(store).WithContent(state.NewState(real.Cfg.FlagCount), cache.NewCache())
		if err := pe.Load(real.Cfg.SessionId); err != nil {
			return false
		}
		apply(pe.GetState())
		return pe.Save(real.Cfg.SessionId) == nil
	}
	return false
}

// genC06FailedMove: a CROAK that fires only after a request whose matching INCMP could not
// make its move (a flag set on the way keeps it armed for the next run): what such a failed
// request leaves behind must not change how the signal is answered.
func genC06FailedMove(t *rapid.T) ModelCase {
	f := uint32(8 + uniformN(t, 3, "flag"))
	sel := []string{"0", "1", "a"}[uniformN(t, 3, "sel")]
	bad := []string{"x", "y", "q"}[uniformN(t, 3, "badtarget")] // not a node name (one character): the move fails
	a := &app.App{Menus: map[string]string{}, Cfg: app.Config{FlagCount: 4}}
	a.Syms = []app.Sym{{Name: "sa", Results: []app.Result{{Content: "alpha"}, {Content: "beta", FlagSet: []uint32{f}}, {Content: "gamma"}}}}
	root := app.Node{Name: "root", Tpl: "top {{.sa}}", Code: []app.Instr{
		{Op: refdec.LOAD, Sym: "sa", Num: 10}, {Op: refdec.CROAK, Num: f, Mode: true}, {Op: refdec.MAP, Sym: "sa"},
		{Op: refdec.MOUT, Sym: "la", Sel: refdec.BS(sel)}, {Op: refdec.HALT},
		{Op: refdec.RELOAD, Sym: "sa"}, {Op: refdec.INCMP, Sym: refdec.BS(bad), Sel: refdec.BS(sel)}, {Op: refdec.INCMP, Sym: "foo", Sel: "9"}, {Op: refdec.INCMP, Sym: ".", Sel: "*"}}}
	foo := app.Node{Name: "foo", Tpl: "foo", Code: []app.Instr{{Op: refdec.HALT}, {Op: refdec.INCMP, Sym: "_", Sel: "*"}}}
	a.Nodes = []app.Node{root, foo, catchNode}
	var in []string
	for i := uniformN(t, 2, "warmup"); i > 0; i-- {
		in = append(in, "")
	}
	in = append(in, "", sel)
	for i := 1 + uniformN(t, 3, "after"); i > 0; i-- {
		in = append(in, []string{"", sel, "9", "x"}[uniformN(t, 4, "afterv")])
	}
	return ModelCase{App: a, Inputs: toBS(in), Mode: app.Mode{Kind: "persist", Backend: "mem"}}
}

func genC06(t *rapid.T) ModelCase {
	if chancePct(t, 4, "failedmove") {
		return genC06FailedMove(t)
	}
	a := GenApp(t, c06Opts)
	if a.Cfg.FlagCount == 0 {
		a.Cfg.FlagCount = 3
	}
	modelFriendly(a)
	mode := c06Modes[uniformN(t, len(c06Modes), "mode")]
	c := ModelCase{App: a, Inputs: genGuidedHistory(t, a, 12, mode.Kind == "persist"), Mode: mode}
	// keep going after a TERMINATE: a few more requests, then the operator clears it
	extra := rapid.IntRange(0, 4).Draw(t, "extra")
	sels := a.Selectors()
	for i := 0; i < extra; i++ {
		in := ""
		if len(sels) > 0 && chancePct(t, 70, "extrasel") {
			in = sels[uniformN(t, len(sels), "extraselv")]
		}
		c.Inputs = append(c.Inputs, BS(in))
	}
	if chancePct(t, 60, "operator") && len(c.Inputs) > 2 {
		c.ClearTerminateAt = []int{rapid.IntRange(1, len(c.Inputs)-1).Draw(t, "clearat")}
	}
	if chancePct(t, 35, "block") && len(c.Inputs) > 2 {
		c.BlockAt = []int{1 + uniformN(t, len(c.Inputs)-1, "blockat")}
	}
	c.First = chancePct(t, 25, "first")
	return c
}

func hooksFor(c ModelCase) *diffHooks {
	if len(c.ClearTerminateAt) == 0 {
		return &diffHooks{useDb: c.UseDb, usePo: c.UsePo, prior: c.Prior}
	}
	return &diffHooks{useDb: c.UseDb, usePo: c.UsePo, prior: c.Prior, beforeRequest: func(i int, real *app.Session, m *model.Session) {
		for _, at := range c.ClearTerminateAt {
			if at == i && m.Terminated() {
				clearTerminate(real, m)
			}
		}
	}}
}

func reservedInResults(a *app.App) bool {
	for _, sp := range a.Syms {
		for _, r := range sp.Results {
			for _, f := range append(append([]uint32{}, r.FlagSet...), r.FlagReset...) {
				if f < 6 {
					return true
				}
			}
		}
	}
	return false
}

func checkC06(c ModelCase) (o Outcome) {
	asp := diffAspects{position: true, fetches: true, calls: true, flags: true, cont: true}
	v, f, discard := modelDiff(c.App, c.Inputs, c.Mode, asp, hooksFor(c))
	o.Viol, o.Discard = v, discard
	if v != nil {
		return
	}
	// blocked requests: nothing runs while TERMINATE is set (independent of the model's
	// details: zero external calls, no bytecode fetch, position and cache unchanged,
	// no output) — checked on the real transcript
	bv, tol := blockedRequestsInertT(c)
	o.Tolerated = append(o.Tolerated, tol...)
	if bv != nil {
		o.Viol = bv
		return
	}
	o.NonTrivial = f.flagsChanged || reservedInResults(c.App) || f.afterEnd > 0 || f.terminate
	if f.flagsChanged {
		o.class("client-flag-changed")
	}
	if reservedInResults(c.App) {
		o.class("reserved-index-in-result")
	}
	if f.terminate {
		o.class("terminate-seen")
	}
	if f.afterEnd > 0 {
		o.class("requests-after-end")
	}
	if len(c.ClearTerminateAt) > 0 {
		o.class("operator-step")
	}
	if len(c.BlockAt) > 0 {
		o.class("out-of-band-block")
	}
	if f.bail != "" {
		o.class("stopped:" + f.bail)
	}
	return
}

// blockedRequestsInert serves the history once more and checks every request that
// starts with TERMINATE set.
func blockedRequestsInert(c ModelCase) *Violation {
	v, _ := blockedRequestsInertT(c)
	return v
}

func blockedRequestsInertT(c ModelCase) (*Violation, []string) {
	tolerated := map[string]bool{}
	tol := func() []string {
		var out []string
		for k := range tolerated {
			out = append(out, k)
		}
		return out
	}
	v := blockedRequestsInertBody(c, tolerated)
	return v, tol()
}

func blockedRequestsInertBody(c ModelCase, tolerated map[string]bool) *Violation {
	var storage app.Storage
	cleanup := func() {}
	if c.Mode.Kind != "long" {
		storage, cleanup = newStorage(c.Mode.Backend)
	}
	defer cleanup()
	theApp := c.App
	if c.First {
		cp := *c.App
		cp.Cfg.First = &app.First{Content: "first"}
		theApp = &cp
	}
	real := app.NewSession(app.NewShared(theApp), c.Mode, storage)
	var prev *app.Snapshot
	scopesOff := false
	for i, in := range c.Inputs {
		if !inputAccepted(string(in)) {
			continue
		}
		blocked := prev != nil && terminateOf(prev.Flags)
		for _, at := range c.BlockAt {
			// out-of-band block of a session that is waiting for input
			if at == i && prev != nil && !blocked && operatorFlag(real, true) {
				blocked = true
			}
		}
		st := real.Request([]byte(in))
		if st.Panic != "" || st.Exceeded {
			return nil
		}
		if blocked && st.ExecErr == "" {
			for _, cl := range st.Calls {
				if cl.Kind == "call" || cl.Kind == "func" || cl.Kind == "code" {
					return viol("blocked-request-runs", "request %d (%q) started with TERMINATE set but the engine did %s", i, in, app.CallsString(st.Calls))
				}
			}
			if st.Cont {
				return viol("blocked-request-continues", "request %d (%q) started with TERMINATE set but reports cont=true", i, in)
			}
			if st.Out != "" {
				return viol("blocked-request-output", "request %d (%q) started with TERMINATE set but produced output %q", i, in, st.Out)
			}
			if st.After != nil {
				if fmt.Sprint(st.After.Path) != fmt.Sprint(prev.Path) || st.After.Idx != prev.Idx {
					return viol("blocked-request-moves", "request %d (%q) started with TERMINATE set but the position changed %v[%d] -> %v[%d]", i, in, prev.Path, prev.Idx, st.After.Path, st.After.Idx)
				}
				if !framesEqual(st.After.Frames, prev.Frames) {
					return viol("blocked-request-cache", "request %d (%q) started with TERMINATE set but the cache changed", i, in)
				}
			}
		}
		// a session that ended gracefully starts again with an empty symbol cache: what is
		// stored after its last request holds no symbol
		if st.After != nil && len(st.After.Path) > 0 && len(st.After.Frames) != len(st.After.Path)+1 {
			// a firing CROAK purged the cache but left the navigation stack (F-C08-2)
			scopesOff = true
		}
		// (when the final page failed to render the engine has not unwound the session yet;
		// the next request's start does it)
		if c.Mode.Kind == "persist" && !blocked && !st.Cont && st.ExecErr == "" && st.FlushErr == "" && st.After != nil && !terminateOf(st.After.Flags) {
			for li, fr := range st.After.Frames {
				for k, v := range fr {
					if scopesOff && tolerate("F-C20-4") {
						tolerated["F-C20-4"] = true
						continue
					}
					bv := viol("ended-session-keeps-symbols", "request %d (%q) ended the session gracefully, but the stored cache still holds %s=%q in scope %d (used size %d): the next session would find it loaded", i, in, k, v, li, st.After.Used)
					if scopesOff {
						bv.Detail = "after-scopes-off"
					}
					return bv
				}
			}
		}
		// external code that returned normally with TERMINATE in its FlagSet has set it,
		// whatever became of the content it returned alongside
		if !blocked && st.After != nil && !terminateOf(st.After.Flags) {
			for _, cl := range st.Calls {
				if cl.Kind != "call" {
					continue
				}
				r, err := c.App.ScriptedResult(cl.Sym, cl.N, cl.Lang, []byte(cl.Input))
				if err != nil {
					continue
				}
				for _, f := range r.FlagSet {
					if f == state.FLAG_TERMINATE {
						return viol("terminate-from-external-code-lost", "request %d (%q): call %d of %s returned TERMINATE in its FlagSet but the flag is not set after the request (exec error %q): %s", i, in, cl.N, cl.Sym, st.ExecErr, app.CallsString(st.Calls))
					}
				}
			}
		}
		if st.ExecErr != "" && inputAccepted(string(in)) && !(st.After != nil && terminateOf(st.After.Flags) && c.Mode.Kind == "persist") {
			// what follows an execution error is unspecified — unless it left the (stored)
			// session blocked: then the later requests are blocked requests like any other
			return nil
		}
		if !st.Cont && c.Mode.Kind != "persist" {
			return nil
		}
		prev = st.After
	}
	return nil
}

// --- metamorphic tamper check ----------------------------------------------------

type C06Tamper struct {
	App    *app.App `json:"app"`
	Inputs []BS     `json:"inputs"`
	Mode   app.Mode `json:"mode"`
}

func stripReserved(a *app.App) *app.App {
	raw, _ := json.Marshal(a)
	var b app.App
	json.Unmarshal(raw, &b)
	for si := range b.Syms {
		for ri := range b.Syms[si].Results {
			r := &b.Syms[si].Results[ri]
			keep := func(fs []uint32) []uint32 {
				var out []uint32
				for _, f := range fs {
					if f >= 6 {
						out = append(out, f)
					}
				}
				return out
			}
			r.FlagSet, r.FlagReset = keep(r.FlagSet), keep(r.FlagReset)
		}
	}
	return &b
}

func genC06Tamper(t *rapid.T) C06Tamper {
	o := fullOpts
	o.Sloppy = false
	o.ReservedFl = true
	o.Langs = chancePct(t, 30, "langs")
	a := GenApp(t, o)
	// make sure reserved indices do occur
	for si := range a.Syms {
		for ri := range a.Syms[si].Results {
			if chancePct(t, 40, "inject") {
				f := uint32(uniformN(t, 6, "reserved"))
				if chancePct(t, 50, "injectset") {
					a.Syms[si].Results[ri].FlagSet = append(a.Syms[si].Results[ri].FlagSet, f)
				} else {
					a.Syms[si].Results[ri].FlagReset = append(a.Syms[si].Results[ri].FlagReset, f)
				}
			}
		}
	}
	return C06Tamper{App: a, Inputs: toBS(GenHistory(t, a, HistOpts{MaxLen: 10, Junk: true})), Mode: c06Modes[uniformN(t, len(c06Modes), "mode")]}
}

func checkC06Tamper(c C06Tamper) (o Outcome) {
	run := func(a *app.App) []app.Step {
		var storage app.Storage
		cleanup := func() {}
		if c.Mode.Kind != "long" {
			storage, cleanup = newStorage(c.Mode.Backend)
		}
		defer cleanup()
		s := app.NewSession(app.NewShared(a), c.Mode, storage)
		var steps []app.Step
		for _, in := range c.Inputs {
			if !inputAccepted(string(in)) {
				continue
			}
			st := s.Request([]byte(in))
			steps = append(steps, st)
			if st.Panic != "" || st.Exceeded || st.ExecErr != "" || (!st.Cont && c.Mode.Kind != "persist") {
				break
			}
		}
		return steps
	}
	with := run(c.App)
	without := run(stripReserved(c.App))
	for _, s := range with {
		if s.Exceeded {
			o.Discard = "move-budget"
			return
		}
	}
	if len(with) != len(without) {
		o.Viol = viol("tamper-changes-history", "with reserved flag indices in the results the session answers %d requests, without them %d", len(with), len(without))
		return
	}
	executed := false
	for i := range with {
		a, b := with[i], without[i]
		if a.Visible() != b.Visible() || a.Panic != b.Panic {
			o.Viol = viol("tamper-changes-transcript", "request %d (%q): with reserved flag indices (0..5) in FlagSet/FlagReset: %s; with those indices removed: %s", i, a.Input, a.Visible(), b.Visible())
			return
		}
		if a.After != nil && b.After != nil && !bytes.Equal(a.After.Flags, b.After.Flags) {
			o.Viol = viol("tamper-changes-flags", "request %d (%q): flag bytes %x with reserved indices in the results, %x without", i, a.Input, a.After.Flags, b.After.Flags)
			return
		}
		for _, cl := range a.Calls {
			if cl.Kind == "call" {
				executed = true
			}
		}
	}
	o.NonTrivial = executed && reservedInResults(c.App)
	return
}

type C06Writeable struct {
	Flag uint32 `json:"flag"`
}

func checkC06Writeable(c C06Writeable) (o Outcome) {
	want := c.Flag == 6 || c.Flag == 7 || c.Flag >= 8
	if state.IsWriteableFlag(c.Flag) != want {
		o.Viol = viol("writeable-flag", "IsWriteableFlag(%d) = %v; external code may change exactly TERMINATE (6), LANG (7) and client flags (>= 8)", c.Flag, !want)
	}
	o.NonTrivial = true
	return
}

var _ = registerReplay("C05", "model", checkC05)
var _ = registerReplay("C06", "model", checkC06)
var _ = registerReplay("C06", "tamper", checkC06Tamper)
var _ = registerReplay("C06", "writeable", checkC06Writeable)

func TestC05(t *testing.T) {
	runKnownExamples(t, "C05")
	RunProp(t, "C05", "model", pick(2500, 30000), genC05, checkC05)
}

func TestC06(t *testing.T) {
	runKnownExamples(t, "C06")
	RunProp(t, "C06", "model", pick(2500, 25000), genC06, checkC06)
	if t.Failed() {
		return
	}
	RunProp(t, "C06", "tamper", pick(1200, 12000), genC06Tamper, checkC06Tamper)
	if t.Failed() {
		return
	}
	RunEnum(t, "C06", "writeable", true, "IsWriteableFlag on 0..4095 and around every power of two up to 2^32-1", func(yield func(C06Writeable) bool) {
		for f := uint32(0); f < 4096; f++ {
			if !yield(C06Writeable{f}) {
				return
			}
		}
		for sh := 12; sh < 32; sh++ {
			for d := -2; d <= 2; d++ {
				if !yield(C06Writeable{uint32(int64(1)<<sh + int64(d))}) {
					return
				}
			}
		}
		yield(C06Writeable{1<<32 - 1})
	}, checkC06Writeable)
}
