package props

// C07 — a persisted session resumes exactly where an uninterrupted one would be.
//
// Differential: the same application and history are served (a) by one long-lived
// engine and (b) one request at a time, each by a fresh engine + fresh store handle +
// fresh persister on the same storage. What the client sees must be identical, request
// by request, up to the end of the session.

import (
	"bytes"
	"context"
	"encoding/json"
	"fmt"
	"os"
	"path/filepath"
	"reflect"
	"strings"
	"sync/atomic"
	"testing"
	"unicode/utf8"

	"git.defalsify.org/vise.git/cache"
	"git.defalsify.org/vise.git/persist"
	"git.defalsify.org/vise.git/state"
	"pgregory.net/rapid"

	"verifharness/app"
	"verifharness/refdec"
)

type C07Case struct {
	App     *app.App `json:"app"`
	Inputs  []BS     `json:"inputs"`
	Backend string   `json:"backend"`
	// Other: inputs of a second session kept in the same store, one request of it served
	// after each request of the first (what the store holds for one session must not
	// depend on what is saved for another afterwards)
	Other []BS `json:"other,omitempty"`
}

var workDirSeq atomic.Int64

// workDir returns a fresh scratch directory under $VERIF_TMP (the name carries the process
// id: the workers of a native fuzzing campaign are processes of their own sharing that
// directory).
func workDir() string {
	base := os.Getenv("VERIF_TMP")
	if base == "" {
		base = filepath.Join(os.TempDir(), fmt.Sprintf("verif-work-%d", os.Getpid()))
	}
	d := filepath.Join(base, fmt.Sprintf("d%d-%d", os.Getpid(), workDirSeq.Add(1)))
	os.RemoveAll(d)
	if err := os.MkdirAll(d, 0700); err != nil {
		panic(err)
	}
	return d
}

// newStorage creates a fresh storage of the given backend; cleanup removes it.
func newStorage(backend string) (app.Storage, func()) {
	switch backend {
	case "":
		// a mode that stores nothing
		return nil, func() {}
	case "mem":
		return app.NewMemStorage(), func() {}
	case "fs", "fsbin":
		d := workDir()
		return app.NewFsStorage(d, backend == "fsbin"), func() { os.RemoveAll(d) }
	case "pg":
		return newPgStorage(), func() {}
	}
	panic("unknown backend " + backend)
}

var backends = []string{"mem", "fs", "fsbin", "pg"}

// addLangPager: a multi-page node whose browse labels are translated to texts of other
// lengths, plus a node that switches the language each time it is visited — so that
// paginated pages are rendered before and after a language switch within one session.
func addLangPager(t *rapid.T, a *app.App) {
	addPager(t, a)
	a.Syms = append(a.Syms, app.Sym{Name: "setl", Results: []app.Result{
		{Content: []string{"nor", "swa"}[uniformN(t, 2, "l1")], FlagSet: []uint32{7}},
		{Content: []string{"swa", "nor", "eng"}[uniformN(t, 3, "l2")], FlagSet: []uint32{7}},
		{Content: "nor", FlagSet: []uint32{7}}}})
	a.Nodes = append(a.Nodes, app.Node{Name: "setlang", Tpl: "language set", Code: []app.Instr{
		{Op: refdec.LOAD, Sym: "setl", Num: 0}, {Op: refdec.HALT}, {Op: refdec.INCMP, Sym: "_", Sel: "*"}}})
	for ni := range a.Nodes {
		n := &a.Nodes[ni]
		if n.Name == "pager" || n.Name == "_catch" || n.Name == "setlang" {
			continue
		}
		for i, in := range n.Code {
			if in.Op == refdec.HALT {
				code := append([]app.Instr{}, n.Code[:i+1]...)
				code = append(code, app.Instr{Op: refdec.INCMP, Sym: "setlang", Sel: "8"})
				n.Code = append(code, n.Code[i+1:]...)
				break
			}
		}
	}
	texts := []string{"n", "neste side", "forrige", "ukurasa unaofuata kabisa", "nyuma", "x"}
	for _, code := range []string{"nor", "swa"} {
		tr := a.TransFor(code)
		if tr == nil {
			a.Trans = append(a.Trans, app.Trans{Lang: code, Templates: map[string]string{}, Menus: map[string]string{}, Statics: map[string]string{}})
			tr = &a.Trans[len(a.Trans)-1]
		}
		if tr.Menus == nil {
			tr.Menus = map[string]string{}
		}
		tr.Menus["to_next"] = texts[uniformN(t, len(texts), "nexttext")]
		tr.Menus["to_prev"] = texts[uniformN(t, len(texts), "prevtext")]
	}
}

func genC07(t *rapid.T) C07Case {
	c := genC07Main(t)
	if chancePct(t, 30, "bystander") {
		for _, in := range GenHistory(t, c.App, HistOpts{MaxLen: 8, Junk: true}) {
			if inputAccepted(in) {
				c.Other = append(c.Other, BS(in))
			}
		}
	}
	return c
}

// genC07Deep: a session that keeps descending — two nodes leading to each other — to depths
// around the powers of two below state.MaxLevel (the stored record grows one path element
// and one cache scope per level), then comes back up a little.
func genC07Deep(t *rapid.T) C07Case {
	a := &app.App{Menus: map[string]string{}}
	a.Syms = []app.Sym{{Name: "sa", Results: []app.Result{{Content: "alpha"}, {Content: "beta"}}}}
	step := func(name, other string) app.Node {
		return app.Node{Name: name, Tpl: name + " {{.sa}}", Code: []app.Instr{{Op: refdec.LOAD, Sym: "sa", Num: 8}, {Op: refdec.MAP, Sym: "sa"}, {Op: refdec.HALT},
			{Op: refdec.INCMP, Sym: refdec.BS(other), Sel: "1"}, {Op: refdec.INCMP, Sym: "_", Sel: "0"}, {Op: refdec.INCMP, Sym: ".", Sel: "*"}}}
	}
	a.Nodes = []app.Node{{Name: "root", Tpl: "top", Code: []app.Instr{{Op: refdec.HALT}, {Op: refdec.INCMP, Sym: "ping", Sel: "1"}, {Op: refdec.INCMP, Sym: ".", Sel: "*"}}},
		step("ping", "pong"), step("pong", "ping"), catchNode}
	n := []int{15, 16, 17, 31, 32, 33, 62, 63, 64, 65, 66, 100, 120, 126}[uniformN(t, 14, "depth")]
	h := []string{""}
	for i := 0; i < n; i++ {
		h = append(h, "1")
	}
	for i := uniformN(t, 4, "back"); i > 0; i-- {
		h = append(h, "0")
	}
	h = append(h, "x")
	return C07Case{App: a, Inputs: toBS(h), Backend: backends[uniformN(t, len(backends), "backend")]}
}

func genC07Main(t *rapid.T) C07Case {
	if chancePct(t, 1, "deep") {
		return genC07Deep(t)
	}
	o := fullOpts
	o.Sloppy = chancePct(t, 20, "sloppy")
	o.ResetEmpty = true
	a := GenApp(t, o)
	// a first function that does nothing a client can see (no flag, no refusal): it runs
	// once for the long-lived engine and at every request of the stored session
	// (its result is a cached value like any other while it runs: with a cache capacity the
	// two ways of serving differ by construction, and so does the "last value" a gracefully
	// ending session appends - neither is compared for such a case)
	if a.Cfg.CacheSize == 0 {
		genFirst(t, a, 12, false)
	}
	if chancePct(t, 30, "langpager") {
		addLangPager(t, a)
		// a history that visits the pager, switches the language and comes back
		h := []string{""}
		blocks := 2 + uniformN(t, 4, "lpblocks")
		for b := 0; b < blocks; b++ {
			switch uniformN(t, 3, "lpblock") {
			case 0, 1: // visit the pager, browse, leave
				h = append(h, "9")
				for k := uniformN(t, 4, "lpnext"); k > 0; k-- {
					h = append(h, "11")
				}
				if chancePct(t, 30, "lpprev") {
					h = append(h, "22")
				}
				h = append(h, []string{"0", "1", "0"}[uniformN(t, 3, "lpleave")])
			default: // switch the language
				h = append(h, "8", "x")
			}
			if chancePct(t, 15, "lpjunk") {
				h = append(h, []string{"x", "zz", "", "11"}[uniformN(t, 4, "lpjunkv")])
			}
		}
		return C07Case{App: a, Inputs: toBS(h), Backend: backends[uniformN(t, len(backends), "backend")]}
	}
	return C07Case{
		App:     a,
		Inputs:  toBS(GenHistory(t, a, HistOpts{MaxLen: 10, Junk: true, Long: true})),
		Backend: backends[uniformN(t, len(backends), "backend")],
	}
}

func clientFlags(flags []byte) []byte {
	// TERMINATE + everything from index 8 up: what survives a HALT by contract
	out := append([]byte{}, flags...)
	if len(out) > 0 {
		out[0] &= 1 << state.FLAG_TERMINATE
	}
	return out
}

// sessionFeatures classifies a history for the non-triviality rules.
type sessionFeatures struct {
	invalidInput, browse, reload, langSwitch, secondHalt, catchVisit, sinkPage, ended, errored bool
}

func featuresOf(a *app.App, steps []app.Step) (f sessionFeatures) {
	lang := ""
	for i, s := range steps {
		if s.After != nil {
			if len(s.After.Path) > 0 && s.After.Path[len(s.After.Path)-1] == "_catch" {
				f.catchVisit = true
			}
			if s.After.Idx > 0 {
				f.browse = true
			}
			if i > 0 && s.After.Lang != lang {
				f.langSwitch = true
			}
			lang = s.After.Lang
		}
		for _, c := range s.Calls {
			if c.Kind == "call" && c.N > 0 {
				f.reload = true
			}
		}
		if !s.Cont && s.ExecErr == "" {
			f.ended = true
		}
		if s.ExecErr != "" || s.FlushErr != "" {
			f.errored = true
		}
		if bytes.Contains([]byte(s.Out), []byte("invalid input")) {
			f.invalidInput = true
		}
	}
	return
}

func nodeHasTwoHalts(n *app.Node) bool {
	c := 0
	for _, in := range n.Code {
		if in.Op == refdec.HALT {
			c++
		}
	}
	return c >= 2
}

func checkC07(c C07Case) (o Outcome) {
	for _, in := range c.Inputs {
		if !inputAccepted(string(in)) {
			o.Discard = "refused-input-in-history"
			return
		}
	}
	long := app.NewSession(app.NewShared(c.App), app.Mode{Kind: "long"}, nil)
	storage, cleanup := newStorage(c.Backend)
	defer cleanup()
	pers := app.NewSession(app.NewShared(c.App), app.Mode{Kind: "persist", Backend: c.Backend}, storage)
	var other *app.Session
	if len(c.Other) > 0 {
		other = app.NewSession(app.NewShared(c.App), app.Mode{Kind: "persist", Backend: c.Backend}, storage)
		other.Cfg.SessionId = pers.Cfg.SessionId + "-other"
		o.class("with-second-session-in-store")
	}
	var lsteps []app.Step
	for i, in := range c.Inputs {
		ls := long.Request([]byte(in))
		ps := pers.Request([]byte(in))
		if other != nil && i < len(c.Other) {
			if os := other.Request([]byte(c.Other[i])); os.Panic != "" || os.Exceeded {
				other = nil // its own trouble (C08); the first session goes on alone
			}
		}
		lsteps = append(lsteps, ls)
		if ls.Exceeded || ps.Exceeded {
			o.Discard = "move-budget"
			return
		}
		if ls.Panic != "" || ps.Panic != "" {
			// crashes are C08's business; here only "same behaviour" is required, and a
			// panic on one side only is a difference
			if (ls.Panic != "") != (ps.Panic != "") {
				o.Viol = viol("panic-one-side", "request %d (%q): long-lived panic=%q, persisted panic=%q", i, in, ls.Panic, ps.Panic)
				return
			}
			o.class("panic-both-sides")
			break
		}
		if ps.FinishErr != "" {
			o.Viol = viol("save-failed", "request %d (%q): saving the session failed: %s", i, in, ps.FinishErr)
			return
		}
		if c.App.Cfg.First != nil && !ls.Cont && !ps.Cont && ls.ExecErr == "" && ps.ExecErr == "" {
			// the end of the session: what is appended to the last page is the last value
			// loaded, which in engine-per-request operation is the first function's
			o.class("first-function:end-not-compared")
			break
		}
		if ls.Visible() != ps.Visible() {
			o.Viol = viol("transcripts-differ", "request %d (%q) on %s:\n long-lived: %s (%s)\n persisted : %s (%s)", i, in, c.Backend, ls.Visible(), ls.ExecErr+ls.FlushErr, ps.Visible(), ps.ExecErr+ps.FlushErr)
			return
		}
		if ls.ExecErr != "" || !ls.Cont {
			break // end of the session (or of what is specified after an execution error)
		}
		// a failed render (e.g. the page does not fit) is an error for that request only:
		// the session lives on and both modes must keep agreeing
		// what a later request can observe: position, language, client flags, cached values
		la, pa := ls.After, ps.After
		if la != nil && pa != nil {
			if !reflect.DeepEqual(la.Path, pa.Path) || la.Idx != pa.Idx {
				o.Viol = viol("position-differs", "after request %d (%q): long-lived at %v[%d], persisted at %v[%d]", i, in, la.Path, la.Idx, pa.Path, pa.Idx)
				return
			}
			if la.Lang != pa.Lang {
				o.Viol = viol("language-differs", "after request %d: language %q vs %q", i, la.Lang, pa.Lang)
				return
			}
			if !bytes.Equal(clientFlags(la.Flags), clientFlags(pa.Flags)) {
				o.Viol = viol("flags-differ", "after request %d: flags %x vs %x", i, la.Flags, pa.Flags)
				return
			}
			if !reflect.DeepEqual(la.Frames, pa.Frames) {
				o.Viol = viol("cache-differs", "after request %d: cache %v vs %v", i, la.Frames, pa.Frames)
				return
			}
		}
		// F-C07-1: a cached value that is not valid UTF-8 (echo of raw client input) is
		// stored as a CBOR text string, which cannot be loaded again
		if tolerate("F-C07-1") && pa != nil && snapshotHasInvalidUTF8(pa) {
			o.Tolerated = append(o.Tolerated, "F-C07-1")
			break
		}
		// stored bytes decode into a fresh persister, re-encode, decode again to equal values
		if v := snapshotRoundTrip(pers, true); v != nil {
			o.Viol = v
			return
		}
	}
	f := featuresOf(c.App, lsteps)
	twoHalts := false
	for i := range c.App.Nodes {
		if nodeHasTwoHalts(&c.App.Nodes[i]) {
			twoHalts = true
		}
	}
	o.NonTrivial = len(lsteps) >= 3 && (f.invalidInput || f.browse || f.reload || f.langSwitch || twoHalts)
	o.class("backend:" + c.Backend)
	if f.invalidInput {
		o.class("has-invalid-input")
	}
	if f.browse {
		o.class("has-browse")
	}
	if f.reload {
		o.class("has-repeat-call")
	}
	if f.langSwitch {
		o.class("has-language-switch")
	}
	if f.catchVisit {
		o.class("visits-catch")
	}
	if f.ended {
		o.class("session-ended")
	}
	if f.errored {
		o.class("ends-in-error")
	}
	o.class("requests:%d", min(len(lsteps), 6))
	return
}

// snapshotRoundTrip: what the persisted session just stored loads into a fresh
// persister, serialises again and loads again to the same values.
func snapshotRoundTrip(s *app.Session, compareLive bool) *Violation {
	ctx := context.Background()
	store, err := s.Storage.Open(ctx)
	if err != nil {
		return viol("storage-open", "%v", err)
	}
	load := func() (*app.Snapshot, []byte, error) {
		pe := persist.NewPersister(store).WithContent(state.NewState(s.Cfg.FlagCount), cache.NewCache())
		if err := pe.Load(s.Cfg.SessionId); err != nil {
			return nil, nil, err
		}
		b, err := pe.Serialize()
		return app.TakeSnapshot(pe.GetState(), pe.GetMemory().(*cache.Cache)), b, err
	}
	s1, b1, err := load()
	if err != nil {
		return viol("stored-unloadable", "stored session does not load: %v", err)
	}
	pe2 := persist.NewPersister(store).WithContent(state.NewState(s.Cfg.FlagCount), cache.NewCache())
	if err := pe2.Deserialize(b1); err != nil {
		return viol("reencode-unloadable", "re-encoded session does not decode: %v", err)
	}
	s2 := app.TakeSnapshot(pe2.GetState(), pe2.GetMemory().(*cache.Cache))
	if !reflect.DeepEqual(s1, s2) {
		return viol("roundtrip-differs", "decode(encode(decode(stored))) differs:\n %+v\n %+v", s1, s2)
	}
	if cur := app.TakeSnapshot(s.St, s.Ca); compareLive && cur != nil && !reflect.DeepEqual(normSnap(cur), normSnap(s1)) {
		return viol("stored-differs", "stored session differs from the session that was saved:\n saved : %+v\n stored: %+v", cur, s1)
	}
	return nil
}

func snapshotHasInvalidUTF8(s *app.Snapshot) bool {
	if !utf8.ValidString(s.Last) {
		return true
	}
	for _, f := range s.Frames {
		for k, v := range f {
			if !utf8.ValidString(k) || !utf8.ValidString(v) {
				return true
			}
		}
	}
	for _, p := range s.Path {
		if !utf8.ValidString(p) {
			return true
		}
	}
	return false
}

// normSnap removes representation-only differences (nil vs empty).
func normSnap(s *app.Snapshot) *app.Snapshot {
	c := *s
	if len(c.Path) == 0 {
		c.Path = nil
	}
	if len(c.Code) == 0 {
		c.Code = nil
	}
	if len(c.Flags) == 0 {
		c.Flags = nil
	}
	var fr []map[string]string
	for _, f := range c.Frames {
		if f == nil {
			f = map[string]string{}
		}
		fr = append(fr, f)
	}
	c.Frames = fr
	return &c
}

func init() {
	// F-C07-1: recognised by the failing shape — a client input that is not valid UTF-8
	// reached the cache, and the stored session does not load (or the session restarts).
	knownPredicates["c07-invalid-utf8-in-cache"] = func(sub string, raw json.RawMessage, v *Violation) bool {
		var c C07Case
		if json.Unmarshal(raw, &c) != nil {
			return false
		}
		bad := false
		for _, in := range c.Inputs {
			if !utf8.ValidString(string(in)) {
				bad = true
			}
		}
		return bad && v.Kind == "stored-unloadable" && strings.Contains(v.Msg, "invalid UTF-8")
	}
}

var _ = registerReplay("C07", "diff", checkC07)

func TestC07(t *testing.T) {
	runKnownExamples(t, "C07")
	RunProp(t, "C07", "diff", pick(1500, 12000), genC07, checkC07)
}
