package props

// C10, sub "fsfault": "the latest SUCCESSFUL write". A Put on the filesystem backend whose
// write hits a full disk (here: the process's file size limit, lowered around the call)
// either reports the failure and leaves the earlier value, or — having reported success —
// stored the whole new value.

import (
	"bytes"
	"context"
	"os/signal"
	"sync"
	"syscall"
	"testing"

	"git.defalsify.org/vise.git/db"
	fsdb "git.defalsify.org/vise.git/db/fs"
	"pgregory.net/rapid"
)

type C10Fault struct {
	Typ    uint8 `json:"typ"`
	Binary bool  `json:"binary,omitempty"`
	OldLen int   `json:"old_len"` // -1: no earlier value
	NewLen int   `json:"new_len"`
	Limit  int   `json:"limit"` // file size limit in force during the second Put
}

func genC10Fault(t *rapid.T) C10Fault {
	c := C10Fault{Typ: dbTypes[uniformN(t, len(dbTypes), "typ")], Binary: rapid.Bool().Draw(t, "binary")}
	c.OldLen = []int{-1, 0, 1, 5, 40, 200}[uniformN(t, 6, "oldlen")]
	c.NewLen = []int{1, 2, 17, 64, 152, 4096, 5000}[uniformN(t, 7, "newlen")]
	c.Limit = uniformN(t, 1+min(c.NewLen-1, 1023), "limit")
	if chancePct(t, 15, "nolimit") {
		c.Limit = c.NewLen + 10 // control: no fault
	}
	return c
}

var sigxfszOnce sync.Once

// withFileSizeLimit runs f with the soft RLIMIT_FSIZE lowered to n bytes.
func withFileSizeLimit(n int, f func()) bool {
	sigxfszOnce.Do(func() { signal.Ignore(syscall.SIGXFSZ) })
	var old syscall.Rlimit
	if err := syscall.Getrlimit(syscall.RLIMIT_FSIZE, &old); err != nil {
		return false
	}
	lim := old
	lim.Cur = uint64(n)
	if err := syscall.Setrlimit(syscall.RLIMIT_FSIZE, &lim); err != nil {
		return false
	}
	defer syscall.Setrlimit(syscall.RLIMIT_FSIZE, &old)
	f()
	return true
}

func checkC10Fault(c C10Fault) (o Outcome) {
	if c.NewLen < 1 || c.Limit < 0 {
		o.Discard = "malformed-case"
		return
	}
	ctx := context.Background()
	dir := workDir()
	d := fsdb.NewFsDb()
	if c.Binary {
		d = d.WithBinary()
	}
	if err := d.Connect(ctx, dir); err != nil {
		o.Discard = "no-store"
		return
	}
	d.SetLock(safeLock, false)
	d.SetPrefix(c.Typ)
	d.SetSession("s")
	key := []byte("foo")
	oldv := bytes.Repeat([]byte("o"), max(c.OldLen, 0))
	newv := bytes.Repeat([]byte("n"), c.NewLen)
	if c.OldLen >= 0 {
		if err := d.Put(ctx, key, oldv); err != nil {
			o.Discard = "first-put-fails"
			return
		}
	}
	var perr error
	if !withFileSizeLimit(c.Limit, func() { perr = d.Put(ctx, key, newv) }) {
		o.Discard = "cannot-set-file-size-limit"
		return
	}
	got, gerr := d.Get(ctx, key)
	switch {
	case perr == nil:
		if gerr != nil || !bytes.Equal(got, newv) {
			o.Viol = viol("acknowledged-write-truncated", "Put of %d bytes under a file size limit of %d bytes reported success, but Get returns %d bytes (%v)", c.NewLen, c.Limit, len(got), gerr)
			return
		}
		o.class("put-succeeded")
	case c.OldLen >= 0:
		if gerr != nil || !bytes.Equal(got, oldv) {
			o.Viol = viol("failed-write-changed-entry", "Put of %d bytes under a file size limit of %d bytes failed (%v), but the earlier value of %d bytes no longer reads back: Get returns %d bytes (%v)", c.NewLen, c.Limit, perr, c.OldLen, len(got), gerr)
			return
		}
		o.class("put-failed:old-value-kept")
	default:
		if gerr == nil || !db.IsNotFound(gerr) {
			o.Viol = viol("failed-write-visible", "Put of %d bytes under a file size limit of %d bytes failed (%v), but the key now reads as %d bytes (%v)", c.NewLen, c.Limit, perr, len(got), gerr)
			return
		}
		o.class("put-failed:still-not-found")
	}
	o.NonTrivial = c.Limit < c.NewLen
	return
}

var _ = registerReplay("C10", "fsfault", checkC10Fault)

func runC10Fault(t *testing.T) {
	RunProp(t, "C10", "fsfault", pick(300, 3000), genC10Fault, checkC10Fault)
}
