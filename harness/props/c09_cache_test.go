package props

// C09 — the symbol cache enforces its limits and accounts for every byte.
//
// Generated operation sequences over cache.Cache are run in lock-step with a
// reference cache written from the Memory interface documentation
// (cache/memory.go) and the property statement; every exported field is
// compared after every operation.

import (
	"context"
	"fmt"
	"sort"
	"strings"
	"testing"
	"unicode/utf8"

	"git.defalsify.org/vise.git/cache"
	"git.defalsify.org/vise.git/db"
	"git.defalsify.org/vise.git/persist"
	"git.defalsify.org/vise.git/state"
	"pgregory.net/rapid"

	"verifharness/app"
)

func mustOpen(s app.Storage) db.Db {
	d, err := s.Open(context.Background())
	if err != nil {
		panic(err)
	}
	return d
}

type C09Op struct {
	Kind  string `json:"kind"` // add update get push pop reset last reserved save load
	Key   string `json:"key,omitempty"`
	Len   int    `json:"len,omitempty"`
	Fill  string `json:"fill,omitempty"`
	Limit uint16 `json:"limit,omitempty"`
	// Slot (save, load): which of two stored records; load decodes the record INTO the live
	// cache object, the way a persister that is kept between requests does
	Slot int `json:"slot,omitempty"`
}

type C09Case struct {
	Capacity uint32  `json:"capacity"`
	Ops      []C09Op `json:"ops"`
}

var c09Keys = []string{"a", "b", "c", "d", "e"}
var c09Lens = []int{0, 1, 2, 3, 4, 7, 8, 9, 10, 11, 19, 20, 21, 99, 100, 101, 65534, 65535, 65536, 65537, 65539, 65544, 65636, 70000}
var c09Limits = []uint16{0, 0, 1, 3, 8, 10, 20, 100, 65535}
var c09Caps = []uint32{0, 0, 1, 5, 10, 20, 30, 200, 65535, 65536, 70000, 131072, 140001}

func genC09(t *rapid.T) C09Case {
	c := C09Case{Capacity: rapid.SampledFrom(c09Caps).Draw(t, "cap")}
	if rapid.IntRange(0, 9).Draw(t, "capfree") == 0 {
		c.Capacity = rapid.Uint32Range(0, 200000).Draw(t, "capv")
	}
	c.Ops = genSlice(t, rapid.Custom(genC09Op), 1, 40, "ops")
	return c
}

func genC09Op(t *rapid.T) C09Op {
	{
		k := rapid.SampledFrom([]string{"add", "add", "add", "add", "add", "add", "update", "update", "update", "update", "get", "get", "push", "push", "pop", "pop", "reset", "reset", "last", "last", "reserved", "reserved", "save", "save", "load"}).Draw(t, "kind")
		op := C09Op{Kind: k}
		switch k {
		case "add", "update":
			op.Key = rapid.SampledFrom(c09Keys).Draw(t, "key")
			// (multi-byte fills: the lengths the cache counts are bytes, not characters)
			op.Fill = []string{"x", "y", "z", "x", "y", "é", "日本", "\xff"}[uniformN(t, 8, "fill")]
			if rapid.IntRange(0, 5).Draw(t, "lenfree") == 0 {
				op.Len = rapid.IntRange(0, 70000).Draw(t, "lenv")
			} else {
				op.Len = rapid.SampledFrom(c09Lens).Draw(t, "len")
			}
			if k == "add" {
				op.Limit = rapid.SampledFrom(c09Limits).Draw(t, "limit")
				if rapid.IntRange(0, 7).Draw(t, "limfree") == 0 {
					op.Limit = rapid.Uint16().Draw(t, "limv")
				}
				// bias: length right at the limit
				if op.Limit > 0 && rapid.IntRange(0, 3).Draw(t, "atlimit") == 0 {
					op.Len = int(op.Limit) + rapid.IntRange(-1, 1).Draw(t, "d")
					if rapid.Bool().Draw(t, "wrap") {
						op.Len += 65536
					}
					if op.Len > 70000 {
						op.Len -= 65536
					}
				}
			}
		case "get", "reserved":
			op.Key = rapid.SampledFrom(c09Keys).Draw(t, "key")
		case "save", "load":
			op.Slot = uniformN(t, 2, "slot")
		}
		return op
	}
}

// --- reference cache -------------------------------------------------------

type refCache struct {
	cap    uint32
	used   uint32
	frames []map[string]string
	limits map[string]uint16
	last   string
}

func (r *refCache) clone() *refCache {
	c := &refCache{cap: r.cap, used: r.used, limits: map[string]uint16{}, last: r.last}
	for k, v := range r.limits {
		c.limits[k] = v
	}
	for _, f := range r.frames {
		m := map[string]string{}
		for k, v := range f {
			m[k] = v
		}
		c.frames = append(c.frames, m)
	}
	return c
}

func (r *refCache) storable() bool {
	if !utf8.ValidString(r.last) {
		return false
	}
	for _, f := range r.frames {
		for _, v := range f {
			if !utf8.ValidString(v) {
				return false
			}
		}
	}
	return true
}

func newRefCache(capacity uint32) *refCache {
	return &refCache{cap: capacity, frames: []map[string]string{{}}, limits: map[string]uint16{}}
}

func (r *refCache) frameOf(k string) int {
	for i, f := range r.frames {
		if _, ok := f[k]; ok {
			return i
		}
	}
	return -1
}

func (r *refCache) add(k, v string, lim uint16) bool {
	if lim > 0 && len(v) > int(lim) {
		return false
	}
	if r.frameOf(k) >= 0 {
		return false
	}
	if r.cap > 0 && uint64(r.used)+uint64(len(v)) > uint64(r.cap) {
		return false
	}
	r.frames[len(r.frames)-1][k] = v
	r.used += uint32(len(v))
	r.limits[k] = lim
	r.last = v
	return true
}

func (r *refCache) update(k, v string) bool {
	i := r.frameOf(k)
	if i < 0 {
		return false
	}
	lim := r.limits[k]
	if lim > 0 && len(v) > int(lim) {
		return false
	}
	old := r.frames[i][k]
	if r.cap > 0 && uint64(r.used)-uint64(len(old))+uint64(len(v)) > uint64(r.cap) {
		return false
	}
	r.frames[i][k] = v
	r.used = r.used - uint32(len(old)) + uint32(len(v))
	return true
}

func (r *refCache) pop() {
	l := len(r.frames) - 1
	for k, v := range r.frames[l] {
		r.used -= uint32(len(v))
		delete(r.limits, k)
	}
	r.frames = r.frames[:l]
	if l == 0 {
		r.frames = append(r.frames, map[string]string{})
	}
}

func (r *refCache) reset() {
	for len(r.frames) > 1 {
		l := len(r.frames) - 1
		for k, v := range r.frames[l] {
			r.used -= uint32(len(v))
			delete(r.limits, k)
		}
		r.frames = r.frames[:l]
	}
}

func describeVal(v string) string {
	if len(v) <= 12 {
		return fmt.Sprintf("%q", v)
	}
	return fmt.Sprintf("%q…(len %d)", v[:4], len(v))
}

// compare the implementation's exported state with the reference.
func (r *refCache) diff(ca *cache.Cache) string {
	if int(ca.Levels()) != len(r.frames) {
		return fmt.Sprintf("Levels()=%d, reference has %d scopes", ca.Levels(), len(r.frames))
	}
	if len(ca.Cache) != len(r.frames) {
		return fmt.Sprintf("len(Cache)=%d, reference has %d scopes", len(ca.Cache), len(r.frames))
	}
	var sum uint64
	seen := map[string]int{}
	for i, f := range ca.Cache {
		for k, v := range f {
			sum += uint64(len(v))
			if j, dup := seen[k]; dup {
				return fmt.Sprintf("key %q defined in scopes %d and %d", k, j, i)
			}
			seen[k] = i
			want, ok := r.frames[i][k]
			if !ok {
				return fmt.Sprintf("scope %d holds key %q=%s, reference does not", i, k, describeVal(v))
			}
			if want != v {
				return fmt.Sprintf("scope %d key %q = %s, reference %s", i, k, describeVal(v), describeVal(want))
			}
			lim, ok := ca.Sizes[k]
			if !ok {
				return fmt.Sprintf("live key %q has no size limit entry", k)
			}
			if lim != r.limits[k] {
				return fmt.Sprintf("key %q limit %d, reference %d", k, lim, r.limits[k])
			}
		}
		for k := range r.frames[i] {
			if _, ok := f[k]; !ok {
				return fmt.Sprintf("scope %d lacks key %q which the reference holds", i, k)
			}
		}
	}
	if uint64(ca.CacheUseSize) != sum {
		return fmt.Sprintf("CacheUseSize=%d but stored values sum to %d", ca.CacheUseSize, sum)
	}
	if ca.CacheUseSize != r.used {
		return fmt.Sprintf("CacheUseSize=%d, reference used=%d", ca.CacheUseSize, r.used)
	}
	if r.cap > 0 && ca.CacheUseSize > r.cap {
		return fmt.Sprintf("CacheUseSize=%d exceeds capacity %d", ca.CacheUseSize, r.cap)
	}
	for k, lim := range r.limits {
		if lim > 0 {
			i := r.frameOf(k)
			if len(ca.Cache[i][k]) > int(lim) {
				return fmt.Sprintf("key %q holds %d bytes over its limit %d", k, len(ca.Cache[i][k]), lim)
			}
		}
	}
	return ""
}

type c09Snap struct {
	frames []map[string]string
	used   uint32
	sizes  map[string]uint16
	last   string
}

func snapCache(ca *cache.Cache) c09Snap {
	s := c09Snap{used: ca.CacheUseSize, sizes: map[string]uint16{}, last: ca.LastValue}
	for _, f := range ca.Cache {
		m := map[string]string{}
		for k, v := range f {
			m[k] = v
			s.sizes[k] = ca.Sizes[k]
		}
		s.frames = append(s.frames, m)
	}
	return s
}

func (a c09Snap) equal(b c09Snap) string {
	if a.used != b.used {
		return fmt.Sprintf("used size %d -> %d", a.used, b.used)
	}
	if a.last != b.last {
		return "last value changed"
	}
	if len(a.frames) != len(b.frames) {
		return fmt.Sprintf("scopes %d -> %d", len(a.frames), len(b.frames))
	}
	for i := range a.frames {
		if len(a.frames[i]) != len(b.frames[i]) {
			return fmt.Sprintf("scope %d key count changed", i)
		}
		for k, v := range a.frames[i] {
			if w, ok := b.frames[i][k]; !ok || w != v {
				return fmt.Sprintf("scope %d key %q changed", i, k)
			}
			if a.sizes[k] != b.sizes[k] {
				return fmt.Sprintf("limit of %q changed", k)
			}
		}
	}
	return ""
}

func c09Value(op C09Op) string {
	f := op.Fill
	if f == "" {
		f = "x"
	}
	return strings.Repeat(f, op.Len)
}

func checkC09(c C09Case) (o Outcome) {
	ca := cache.NewCache()
	if c.Capacity > 0 {
		ca = ca.WithCacheSize(c.Capacity)
	}
	ref := newRefCache(c.Capacity)
	adds, rejected, updOrPopAfter2 := 0, 0, false
	lastKnown := true
	pe := persist.NewPersister(mustOpen(app.NewMemStorage())).WithContent(state.NewState(0), ca)
	saved := map[int]*refCache{}
	for i, op := range c.Ops {
		at := func(kind, format string, a ...any) Outcome {
			o.Viol = viol(kind, "op %d %+v: %s", i, op, fmt.Sprintf(format, a...))
			return o
		}
		before := snapCache(ca)
		switch op.Kind {
		case "add":
			v := c09Value(op)
			want := ref.add(op.Key, v, op.Limit)
			err := ca.Add(op.Key, v, op.Limit)
			if want {
				adds++
				lastKnown = true
			} else {
				rejected++
			}
			if want && err != nil {
				return at("add-refused", "Add refused (%v) but limit %d, capacity %d, used %d allow %d bytes", err, op.Limit, ref.cap, before.used, len(v))
			}
			if !want && err == nil {
				return at("add-accepted", "Add accepted %d bytes; limit %d, capacity %d, used %d, key defined=%v", len(v), op.Limit, ref.cap, before.used, ref.frameOf(op.Key) >= 0)
			}
			if err != nil {
				if d := before.equal(snapCache(ca)); d != "" {
					return at("rejected-changed", "rejected Add changed the cache: %s", d)
				}
			}
		case "update":
			v := c09Value(op)
			if adds >= 2 {
				updOrPopAfter2 = true
			}
			want := ref.update(op.Key, v)
			err := ca.Update(op.Key, v)
			if !want {
				rejected++
			} else {
				// whether an update counts as "last inserted value" is not documented
				lastKnown = false
			}
			if want && err != nil {
				return at("update-refused", "Update refused (%v) but key is defined, limit %d, capacity %d, used %d allow %d bytes", err, ref.limits[op.Key], ref.cap, before.used, len(v))
			}
			if !want && err == nil {
				return at("update-accepted", "Update accepted %d bytes; limit %d, capacity %d, used %d, key defined=%v", len(v), before.sizes[op.Key], ref.cap, before.used, ref.frameOf(op.Key) >= 0)
			}
			if err != nil {
				if d := before.equal(snapCache(ca)); d != "" {
					return at("rejected-changed", "rejected Update changed the cache: %s", d)
				}
			}
		case "get":
			v, err := ca.Get(op.Key)
			i := ref.frameOf(op.Key)
			if i < 0 && err == nil {
				return at("get-ghost", "Get returned %s for a key that is not defined", describeVal(v))
			}
			if i >= 0 && (err != nil || v != ref.frames[i][op.Key]) {
				return at("get-wrong", "Get = %s, %v; reference %s", describeVal(v), err, describeVal(ref.frames[i][op.Key]))
			}
		case "reserved":
			lim, err := ca.ReservedSize(op.Key)
			if ref.frameOf(op.Key) >= 0 && (err != nil || lim != ref.limits[op.Key]) {
				return at("reserved-wrong", "ReservedSize = %d, %v; reference %d", lim, err, ref.limits[op.Key])
			}
		case "push":
			ref.frames = append(ref.frames, map[string]string{})
			if err := ca.Push(); err != nil {
				return at("push-error", "Push failed: %v", err)
			}
		case "pop":
			if adds >= 2 {
				updOrPopAfter2 = true
			}
			var popped uint64
			for _, v := range ref.frames[len(ref.frames)-1] {
				popped += uint64(len(v))
			}
			atBase := len(ref.frames) == 1
			err := ca.Pop()
			if err != nil {
				// Memory doc: "Fails if already on top level" — an error with
				// nothing changed is acceptable there, and only there.
				if !atBase {
					return at("pop-error", "Pop failed above the base scope: %v", err)
				}
				if d := before.equal(snapCache(ca)); d != "" {
					return at("rejected-changed", "failed Pop changed the cache: %s", d)
				}
			} else {
				ref.pop()
				if uint64(before.used)-uint64(ca.CacheUseSize) != popped {
					return at("pop-release", "Pop released %d bytes, the scope held %d", uint64(before.used)-uint64(ca.CacheUseSize), popped)
				}
			}
		case "reset":
			ref.reset()
			ca.Reset()
		case "save":
			if !ref.storable() {
				// F-C07-1: a value that is not valid UTF-8 cannot be read back
				o.class("save-skipped:not-utf8")
				continue
			}
			if err := pe.Save(fmt.Sprintf("slot%d", op.Slot)); err != nil {
				return at("save-error", "saving the cache fails: %v", err)
			}
			saved[op.Slot] = ref.clone()
		case "load":
			if saved[op.Slot] == nil {
				continue
			}
			if err := pe.Load(fmt.Sprintf("slot%d", op.Slot)); err != nil {
				return at("load-error", "loading a saved cache into the live object fails: %v", err)
			}
			ref = saved[op.Slot].clone()
			lastKnown = true
			o.class("loaded-into-live-object")
		case "last":
			got := ca.Last()
			if lastKnown && got != ref.last {
				return at("last-wrong", "Last() = %s, reference %s", describeVal(got), describeVal(ref.last))
			}
			ref.last = ""
			lastKnown = true
			if again := ca.Last(); again != "" {
				return at("last-not-cleared", "second Last() = %s, want empty", describeVal(again))
			}
		}
		if d := ref.diff(ca); d != "" {
			return at("state-diverged", "%s", d)
		}
	}
	o.NonTrivial = updOrPopAfter2 && rejected >= 1
	if rejected > 0 {
		o.class("has-rejected-op")
	}
	if updOrPopAfter2 {
		o.class("update-or-pop-after-2-adds")
	}
	big := false
	for _, op := range c.Ops {
		if op.Len >= 65536 {
			big = true
		}
	}
	if big {
		o.class("value>=64KiB")
	}
	if c.Capacity > 0 {
		o.class("capacity-limited")
	}
	return o
}

var _ = registerReplay("C09", "ops", checkC09)

func TestC09(t *testing.T) {
	runKnownExamples(t, "C09")
	RunProp(t, "C09", "ops", pick(4000, 60000), genC09, checkC09)
}

// keep sort imported for helpers that list keys deterministically
var _ = sort.Strings
