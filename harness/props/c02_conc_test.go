package props

// C02 (conc) — pages of different set-ups rendered at the same time, each with its own
// page, menu, cache and resource objects: every page is what the same set-up renders alone.
// (Pagination measures browse entries on scratch objects; those must not be shared.)

import (
	"fmt"
	"testing"

	"pgregory.net/rapid"
)

type C02Conc struct {
	Pages  []PageCase `json:"pages"`
	Rounds int        `json:"rounds"`
}

func genC02Conc(t *rapid.T) C02Conc {
	n := 2 + uniformN(t, 7, "callers")
	c := C02Conc{Rounds: pick(15, 30)}
	for i := 0; i < n; i++ {
		pc := genPageCase(t, pageGenOpts{sink: true})
		if len(pc.Tpl) > 4096 {
			pc.Tpl = pc.Tpl[len(pc.Tpl)-200:]
		}
		c.Pages = append(c.Pages, pc)
	}
	return c
}

// every index from 0 until the first that fails (at most 12), as text
func (c PageCase) firstPages() string {
	out := ""
	for idx := uint16(0); idx < 12; idx++ {
		s, err, p := c.renderAt(idx)
		if p != nil {
			return out + fmt.Sprintf("[%d panic %s]", idx, p.val)
		}
		if err != nil {
			return out + fmt.Sprintf("[%d error]", idx)
		}
		out += fmt.Sprintf("[%d %q]", idx, s)
	}
	return out
}

func checkC02Conc(c C02Conc) (o Outcome) {
	if len(c.Pages) < 2 || c.Rounds < 1 {
		o.Discard = "fewer-than-two-callers"
		return
	}
	alone := make([]string, len(c.Pages))
	for i, p := range c.Pages {
		alone[i] = p.firstPages()
	}
	msg := runOverlapped(len(c.Pages), c.Rounds, func(i int) string {
		if got := c.Pages[i].firstPages(); got != alone[i] {
			return fmt.Sprintf("pages rendered while others render: %s; alone: %s", got, alone[i])
		}
		return ""
	})
	if msg != "" {
		fmt.Printf("C02 concurrent rendering failure: %s\n", msg)
		o.Viol = viol("concurrent-render-differs", "%d set-ups rendered at once: %s", len(c.Pages), msg)
		return
	}
	o.NonTrivial = true
	o.class("callers:%d", len(c.Pages))
	return
}

var _ = registerReplay("C02", "conc", checkC02Conc)

func runConcC02(t *testing.T) {
	RunProp(t, "C02", "conc", pick(60, 150), genC02Conc, checkC02Conc)
}
