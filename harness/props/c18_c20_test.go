package props

// C18 — the selected language reaches every lookup and survives the session.
// C20 — session end restarts cleanly; termination stays blocked.

import (
	"encoding/json"
	"testing"

	"pgregory.net/rapid"

	"verifharness/app"
	"verifharness/model"
	"verifharness/refdec"
)

var c18Opts = GenOpts{MaxNodes: 4, MultiHalt: true, Langs: true, EchoInput: true, NoEndNodes: true, Separators: true, Flags: true}

var c18Modes = []app.Mode{{Kind: "long"}, {Kind: "persist", Backend: "mem"}, {Kind: "persist", Backend: "mem"}, {Kind: "persist", Backend: "fs"}, {Kind: "objects"}}

func genC18(t *rapid.T) ModelCase {
	a := GenApp(t, c18Opts)
	// language switches are what this property is about: most nodes ask the 'lang'
	// function (whose n-th call returns the n-th scripted code) when they are entered
	for i := range a.Nodes {
		if a.Nodes[i].Name != "_catch" && chancePct(t, 45, "langload") {
			pre := []app.Instr{{Op: refdec.LOAD, Sym: "lang", Num: 0}}
			if chancePct(t, 50, "langreload") {
				// ask again even when an ancestor already loaded it
				pre = append(pre, app.Instr{Op: refdec.RELOAD, Sym: "lang"})
			}
			a.Nodes[i].Code = append(pre, a.Nodes[i].Code...)
		}
	}
	if sp := a.Sym("lang"); sp != nil {
		// more scripted answers, so that several switches happen along one history
		extra := rapid.IntRange(0, 3).Draw(t, "extralang")
		for i := 0; i < extra; i++ {
			code := langCodesValid[uniformN(t, len(langCodesValid), "code")]
			if chancePct(t, 20, "badcode") {
				code = []string{"xx", "NOR", "English", "zzz", "n0r"}[uniformN(t, 5, "bad")]
			}
			r := app.Result{Content: code}
			if chancePct(t, 85, "flag") {
				r.FlagSet = []uint32{7}
			}
			sp.Results = append(sp.Results, r)
		}
	}
	// a node whose name ends like a translation of another name would (name_<code>): its own
	// lookups are made in the session's language like everyone else's
	if chancePct(t, 15, "suffixnode") {
		var cands []string
		for _, n := range a.Nodes {
			if n.Name != "_catch" && n.Name != a.RootName() {
				cands = append(cands, n.Name)
			}
		}
		if len(cands) > 0 {
			old := cands[uniformN(t, len(cands), "suffixwhich")]
			renameNode(a, old, old+"_"+[]string{"nor", "swa", "fra"}[uniformN(t, 3, "suffixlang")])
		}
	}
	modelFriendly(a)
	mode := c18Modes[uniformN(t, len(c18Modes), "mode")]
	// half of the cases are served by resource.DbResource over a memdb (templates, labels
	// and static symbol contents as db entries, translations under their language)
	c := ModelCase{App: a, Mode: mode}
	switch k := uniformN(t, 20, "resource"); {
	case k < 9:
		c.UseDb = true
	case k < 14:
		// gettext catalogues key a translation by the default-language text: every node's
		// template and every label text is made unique and non-empty, and no translation
		// is empty (an empty msgstr means "untranslated" to gettext)
		c.UsePo = true
		poFriendly(a)
	}
	c.Inputs = genGuidedHistory(t, a, 12, mode.PerRequest())
	return c
}

// poFriendly makes the application expressible as gettext catalogues.
func poFriendly(a *app.App) {
	for i := range a.Nodes {
		a.Nodes[i].Tpl = a.Nodes[i].Name + "> " + a.Nodes[i].Tpl
	}
	for k, v := range a.Menus {
		a.Menus[k] = k + "= " + v
	}
	for i := range a.Trans {
		for k, v := range a.Trans[i].Templates {
			a.Trans[i].Templates[k] = "[" + a.Trans[i].Lang + "] " + k + "> " + v
		}
		for k, v := range a.Trans[i].Menus {
			a.Trans[i].Menus[k] = a.Trans[i].Lang + ":" + k + "= " + v
		}
	}
}

// renameNode renames a node everywhere it is referred to.
func renameNode(a *app.App, old, new string) {
	for i := range a.Nodes {
		if a.Nodes[i].Name == old {
			a.Nodes[i].Name = new
		}
		for j := range a.Nodes[i].Code {
			in := &a.Nodes[i].Code[j]
			if (in.Op == refdec.MOVE || in.Op == refdec.INCMP || in.Op == refdec.CATCH) && string(in.Sym) == old {
				in.Sym = refdec.BS(new)
			}
		}
	}
	for i := range a.Trans {
		if t, ok := a.Trans[i].Templates[old]; ok {
			delete(a.Trans[i].Templates, old)
			a.Trans[i].Templates[new] = t
		}
	}
}

// firstFunctionLanguage serves the history once more, engine-per-request, with a first
// function configured: at every start of an engine the first function is an external
// function lookup like any other, made in the language the stored session has.
func firstFunctionLanguage(c ModelCase) *Violation {
	if c.Mode.Kind != "persist" {
		return nil
	}
	storage, cleanup := newStorage(c.Mode.Backend)
	defer cleanup()
	cp := *c.App
	cp.Cfg.First = &app.First{}
	s := app.NewSession(app.NewShared(&cp), c.Mode, storage)
	lang := ""
	if code, ok := model.NormaliseLang(c.App.Cfg.Language); ok {
		lang = code
	}
	started := false
	for i, in := range c.Inputs {
		if !inputAccepted(string(in)) {
			continue
		}
		n := len(s.FirstSeen)
		st := s.Request([]byte(in))
		if st.Panic != "" || st.Exceeded {
			return nil
		}
		if len(s.FirstSeen) > n && started {
			if got := s.FirstSeen[n].Lang; got != lang {
				return viol("first-function-language", "request %d (%q): the session's stored language is %q, but the engine's first function was called with language %q on its context", i, in, lang, got)
			}
		}
		if st.ExecErr != "" || st.After == nil {
			return nil
		}
		lang, started = st.After.Lang, true
	}
	return nil
}

func checkC18(c ModelCase) (o Outcome) {
	asp := diffAspects{position: true, calls: true, callLang: true, lookups: true, lang: true, output: true, cont: true}
	v, f, discard := modelDiff(c.App, c.Inputs, c.Mode, asp, hooksFor(c))
	if v == nil && discard == "" {
		v = firstFunctionLanguage(c)
	}
	if c.UseDb {
		o.class("resource:db")
	}
	if c.UsePo {
		o.class("resource:gettext")
	}
	o.Viol, o.Discard = v, discard
	o.NonTrivial = f.langSwitches >= 1 && f.translatedRender && f.untranslatedRender && c.Mode.PerRequest()
	if f.langSwitches > 0 {
		o.class("language-switched")
	}
	if f.langSwitches > 1 {
		o.class("language-switched-twice")
	}
	if f.invalidLang > 0 {
		o.class("invalid-code-offered")
	}
	if f.translatedRender {
		o.class("translated-lookup")
	}
	if f.untranslatedRender {
		o.class("fallback-to-default-lookup")
	}
	o.class("mode:" + c.Mode.Kind)
	if f.bail != "" {
		o.class("stopped:" + f.bail)
	}
	return
}

var c20Opts = GenOpts{MaxNodes: 5, MultiHalt: true, Flags: true, ReservedFl: true, CacheSize: true, EchoInput: true, Errors: false, Sinks: true, ResetEmpty: true, PostCroak: true}

var c20Modes = []app.Mode{{Kind: "persist", Backend: "mem"}, {Kind: "persist", Backend: "fs"}, {Kind: "persist", Backend: "pg"}, {Kind: "persist", Backend: "fsbin"}}

func genC20(t *rapid.T) ModelCase {
	a := GenApp(t, c20Opts)
	modelFriendly(a)
	mode := c20Modes[uniformN(t, len(c20Modes), "mode")]
	c := ModelCase{App: a, Inputs: genGuidedHistory(t, a, 14, true), Mode: mode}
	extra := rapid.IntRange(1, 5).Draw(t, "extra")
	sels := a.Selectors()
	for i := 0; i < extra; i++ {
		in := ""
		if len(sels) > 0 && chancePct(t, 60, "extrasel") {
			in = sels[uniformN(t, len(sels), "extraselv")]
		}
		c.Inputs = append(c.Inputs, BS(in))
	}
	if chancePct(t, 50, "operator") && len(c.Inputs) > 2 {
		c.ClearTerminateAt = []int{rapid.IntRange(1, len(c.Inputs)-1).Draw(t, "clearat")}
	}
	c.First = chancePct(t, 25, "first")
	if chancePct(t, 20, "reuse") {
		// a worker that keeps its persister (and what it loaded last) between requests, with
		// another session taking turns: an ended session's record replaces all of it
		c.Mode.Reuse = []string{"keep", "keep", "flush"}[uniformN(t, 3, "reusekind")]
		c.Prior = genGuidedHistory(t, a, 10, true)
	}
	return c
}

func checkC20(c ModelCase) (o Outcome) {
	asp := diffAspects{position: true, calls: true, cache: true, flags: true, output: true, cont: true}
	v, f, discard := modelDiff(c.App, c.Inputs, c.Mode, asp, hooksFor(c))
	o.Viol, o.Discard = v, discard
	if v == nil {
		bv, tol := blockedRequestsInertT(c)
		o.Tolerated = append(o.Tolerated, tol...)
		if bv != nil {
			o.Viol = bv
			return
		}
	}
	o.NonTrivial = f.ended != "" && f.afterEnd >= 2
	if f.ended != "" {
		o.class("ended:" + f.ended)
	}
	if f.afterEnd >= 2 {
		o.class("continues>=2-past-end")
	}
	if f.ended != "" && f.maxDepth >= 2 {
		o.class("ended-at-depth>=2")
	}
	if f.flagsChanged {
		o.class("client-flag-set")
	}
	if len(c.ClearTerminateAt) > 0 {
		o.class("operator-step")
	}
	if c.Mode.Reuse != "" {
		o.class("reused-persister:" + c.Mode.Reuse)
	}
	o.class("backend:" + c.Mode.Backend)
	if f.bail != "" {
		o.class("stopped:" + f.bail)
	}
	return
}

func init() {
	// F-C20-4: symbols left in the stored cache of an ended session, after a firing CROAK
	// had left the cache scopes out of step with the navigation stack
	knownPredicates["c20-ended-session-keeps-symbols-after-croak"] = func(sub string, raw json.RawMessage, v *Violation) bool {
		return v.Kind == "ended-session-keeps-symbols" && v.Detail == "after-scopes-off"
	}
}

var _ = registerReplay("C18", "model", checkC18)
var _ = registerReplay("C20", "model", checkC20)

func TestC18(t *testing.T) {
	runKnownExamples(t, "C18")
	RunProp(t, "C18", "model", pick(2000, 20000), genC18, checkC18)
}

func TestC20(t *testing.T) {
	runKnownExamples(t, "C20")
	RunProp(t, "C20", "model", pick(3500, 15000), genC20, checkC20)
}
