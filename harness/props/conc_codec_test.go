package props

// Concurrent use of the stateless parts of the library — the VM's decoders, the
// disassembler (C14) and the assembler (C16). Their contract is a pure function from
// input to output; a package-level scratch buffer, cache or pooled object breaks that
// only when two callers overlap, so each case runs several callers with different
// inputs at once and compares every result with the one obtained alone.
// Failures are schedule-dependent: the inputs are saved, the schedule cannot be.

import (
	"bytes"
	"fmt"
	"sync"
	"testing"

	"git.defalsify.org/vise.git/asm"
	"git.defalsify.org/vise.git/vm"
	"pgregory.net/rapid"

	"verifharness/refdec"
)

// runOverlapped calls work(i) rounds times on its own goroutine for every i < n, all
// released together; work returns a description of a wrong result or "".
func runOverlapped(n, rounds int, work func(i int) string) string {
	var wg sync.WaitGroup
	start := make(chan struct{})
	bad := make([]string, n)
	for i := 0; i < n; i++ {
		wg.Add(1)
		go func(i int) {
			defer wg.Done()
			<-start
			for r := 0; r < rounds; r++ {
				if msg := work(i); msg != "" {
					bad[i] = fmt.Sprintf("caller %d, round %d: %s", i, r, msg)
					return
				}
			}
		}(i)
	}
	close(start)
	wg.Wait()
	for _, b := range bad {
		if b != "" {
			return b
		}
	}
	return ""
}

// --- C14: decoders ---------------------------------------------------------------

type C14Conc struct {
	Progs  []C14Case `json:"progs"`
	Rounds int       `json:"rounds"`
}

func genC14Conc(t *rapid.T) C14Conc {
	n := 2 + uniformN(t, 7, "callers")
	c := C14Conc{Rounds: 1500}
	for i := 0; i < n; i++ {
		c.Progs = append(c.Progs, C14Case{Prog: genSlice(t, genInstrBin, 1, 6, "prog")})
	}
	return c
}

type c14Decoded struct {
	ins  []Instr
	text string
	err  string
}

func c14DecodeAlone(enc []byte) (d c14Decoded) {
	rest := enc
	for len(rest) > 0 {
		in, r, err := vmDecodeOne(rest)
		if err != nil {
			d.err = err.Error()
			return
		}
		d.ins = append(d.ins, in)
		rest = r
	}
	text, err := vm.NewParseHandler().WithDefaultHandlers().ToString(enc)
	if err != nil {
		d.err = err.Error()
	}
	d.text = text
	return
}

func checkC14Conc(c C14Conc) (o Outcome) {
	if len(c.Progs) < 2 || c.Rounds < 1 {
		o.Discard = "fewer-than-two-callers"
		return
	}
	var encs [][]byte
	var alone []c14Decoded
	for _, p := range c.Progs {
		e := vmEncodeAll(p.Prog)
		encs = append(encs, e)
		alone = append(alone, c14DecodeAlone(e))
	}
	msg := runOverlapped(len(c.Progs), c.Rounds, func(i int) string {
		got := c14DecodeAlone(encs[i])
		if got.err != alone[i].err || got.text != alone[i].text || fmt.Sprint(got.ins) != fmt.Sprint(alone[i].ins) {
			return fmt.Sprintf("bytecode %x decoded as %v / %q (error %q); decoded alone: %v / %q (error %q)", encs[i], got.ins, got.text, got.err, alone[i].ins, alone[i].text, alone[i].err)
		}
		return ""
	})
	if msg != "" {
		fmt.Printf("C14 concurrent decoding failure: %s\n", msg)
		o.Viol = viol("concurrent-decode-differs", "%d callers decoding different bytecode at once: %s", len(c.Progs), msg)
		return
	}
	o.NonTrivial = true
	o.class("callers:%d", len(c.Progs))
	return
}

var _ = registerReplay("C14", "conc", checkC14Conc)

// --- C16: assembler --------------------------------------------------------------

type C16Conc struct {
	Progs  []C16Case `json:"progs"`
	Rounds int       `json:"rounds"`
}

func genC16Conc(t *rapid.T) C16Conc {
	n := 2 + uniformN(t, 7, "callers")
	c := C16Conc{Rounds: 150}
	for i := 0; i < n; i++ {
		p := asmClean.program(t)
		c.Progs = append(c.Progs, p)
	}
	return c
}

func c16AssembleAlone(src string) string {
	var out bytes.Buffer
	n, err := asm.Parse(src, &out)
	return fmt.Sprintf("%x n=%d err=%v", out.Bytes(), n, err)
}

func checkC16Conc(c C16Conc) (o Outcome) {
	if len(c.Progs) < 2 || c.Rounds < 1 {
		o.Discard = "fewer-than-two-callers"
		return
	}
	var srcs, alone []string
	batches := 0
	for _, p := range c.Progs {
		s := p.source()
		srcs = append(srcs, s)
		var r string
		if pn := catchPanic(func() { r = c16AssembleAlone(s) }); pn != nil {
			o.Discard = "panics-alone" // the sequential check's business
			return
		}
		alone = append(alone, r)
		for _, l := range p.Lines {
			if l.Kind == "batch" {
				batches++
				break
			}
		}
	}
	msg := runOverlapped(len(c.Progs), c.Rounds, func(i int) (m string) {
		var got string
		if pn := catchPanic(func() { got = c16AssembleAlone(srcs[i]) }); pn != nil {
			return fmt.Sprintf("source %q: asm.Parse panics: %s", srcs[i], pn.val)
		}
		if got != alone[i] {
			return fmt.Sprintf("source %q assembled to %s; assembled alone: %s", srcs[i], got, alone[i])
		}
		return ""
	})
	if msg != "" {
		fmt.Printf("C16 concurrent assembly failure: %s\n", msg)
		o.Viol = viol("concurrent-assembly-differs", "%d callers assembling different sources at once: %s", len(c.Progs), msg)
		return
	}
	o.NonTrivial = batches >= 2
	o.class("callers:%d", len(c.Progs))
	if batches >= 2 {
		o.class("two-or-more-with-batch-menu")
	}
	return
}

var _ = registerReplay("C16", "conc", checkC16Conc)

func runConcC14(t *testing.T) {
	RunProp(t, "C14", "conc", pick(40, 600), genC14Conc, checkC14Conc)
}

func runConcC16(t *testing.T) {
	RunProp(t, "C16", "conc", pick(40, 600), genC16Conc, checkC16Conc)
}

// --- C14: integer widths ---------------------------------------------------------------
//
// vm.NewLine writes an integer argument in as many bytes as the caller hands it (0..4, the
// value 0 also in no byte at all, any value also with leading zero bytes); every such
// encoding must decode to the value and consume exactly its own bytes.

type C14Width struct {
	Op    uint16 `json:"op"` // LOAD, CROAK or CATCH
	N     uint32 `json:"n"`
	Width int    `json:"width"`
	Mode  bool   `json:"mode"`
}

func checkC14Width(c C14Width) (o Outcome) {
	if c.Width < 0 || c.Width > 4 || (c.Width < 4 && uint64(c.N) >= uint64(1)<<(8*uint(c.Width))) {
		o.Discard = "value-does-not-fit-width"
		return
	}
	if c.Op != refdec.LOAD && c.Op != refdec.CROAK && c.Op != refdec.CATCH {
		o.Discard = "no-integer-argument"
		return
	}
	b := make([]byte, c.Width)
	for i := 0; i < c.Width; i++ {
		b[c.Width-1-i] = byte(c.N >> (8 * uint(i)))
	}
	want := Instr{Op: c.Op, Num: c.N}
	var strs []string
	var numargs []uint8
	if c.Op != refdec.CROAK {
		want.Sym = "foo"
		strs = []string{"foo"}
	}
	if c.Op != refdec.LOAD {
		want.Mode = c.Mode
		numargs = []uint8{0}
		if c.Mode {
			numargs[0] = 1
		}
	}
	enc := vm.NewLine(nil, c.Op, strs, b, numargs)
	tail := vm.NewLine(nil, vm.MOVE, []string{"bar"}, nil, nil)
	got, rest, err := vmDecodeOne(append(append([]byte{}, enc...), tail...))
	if err != nil {
		o.Viol = viol("vm-decode-error", "%v with its integer written in %d byte(s) (%x) does not decode: %v", want, c.Width, enc, err)
		return
	}
	if got != want {
		o.Viol = viol("vm-decode-args", "%v with its integer written in %d byte(s) (%x) decodes as %v", want, c.Width, enc, got)
		return
	}
	if !bytes.Equal(rest, tail) {
		o.Viol = viol("vm-decode-length", "%v with its integer written in %d byte(s) (%x): the decoder leaves %x, the next instruction is %x", want, c.Width, enc, rest, tail)
		return
	}
	o.NonTrivial = c.Width != len(refdec.IntBytes(c.N))
	o.class("width:%d", c.Width)
	return
}

var _ = registerReplay("C14", "width", checkC14Width)

func runC14Width(t *testing.T) {
	RunEnum(t, "C14", "width", true, "LOAD/CROAK/CATCH x both modes x integer widths 0..4 x every boundary value that fits the width (non-canonical encodings: leading zero bytes, the value 0 in no byte)",
		func(yield func(C14Width) bool) {
			for _, op := range []uint16{refdec.LOAD, refdec.CROAK, refdec.CATCH} {
				for _, mode := range []bool{false, true} {
					for w := 0; w <= 4; w++ {
						for _, n := range u32Boundaries {
							if w < 4 && uint64(n) >= uint64(1)<<(8*uint(w)) {
								continue
							}
							if !yield(C14Width{Op: op, N: n, Width: w, Mode: mode}) {
								return
							}
						}
					}
				}
			}
		}, checkC14Width)
}
