package props

// C11 — sessions and data types never see each other's stored data.
//
// Adversarial (type, session, key) triples are written, each with a value that names its
// own triple, then every triple (and never-written neighbours) is read back and the
// session-scoped types are listed per session. A read or listing that shows another
// triple's value is a violation unless the pair is aliased by one of the listed known
// findings of the storage key scheme — which the harness decides from its own model of
// how each backend names entries.

import (
	"bytes"
	"context"
	"encoding/base64"
	"encoding/json"
	"fmt"
	"os"
	"path"
	"path/filepath"
	"strconv"
	"strings"
	"testing"

	"git.defalsify.org/vise.git/db"
	fsdb "git.defalsify.org/vise.git/db/fs"
	memdb "git.defalsify.org/vise.git/db/mem"
	"git.defalsify.org/vise.git/db/postgres"
	"pgregory.net/rapid"

	"verifharness/pgfake"
)

type C11Triple struct {
	Typ     uint8 `json:"typ"`
	Session BS    `json:"session"`
	Key     BS    `json:"key"`
}

type C11Case struct {
	Writes []C11Triple `json:"writes"`
	Extra  []C11Triple `json:"extra,omitempty"` // never written (unless equal to a write), read as well
}

var c11Atoms = []string{"a", "b", ".", "/", "_", "@", "P", "1", "8", "..", "_eng", "_nor", ".bin", ".txt", "\x00", "\xff", "alice", "s1", "state", "4", "0", "A", "tmp", "~", "-", "lock", "bak"}

var genC11Str = rapid.Custom(func(t *rapid.T) string {
	n := uniformN(t, 5, "natoms")
	var sb strings.Builder
	for i := 0; i < n; i++ {
		sb.WriteString(c11Atoms[uniformN(t, len(c11Atoms), "atom")])
	}
	return sb.String()
})

var genC11Triple = rapid.Custom(func(t *rapid.T) C11Triple {
	tr := C11Triple{Typ: dbTypes[uniformN(t, len(dbTypes), "typ")]}
	if chancePct(t, 60, "sessioned") {
		tr.Typ = dbTypes[4+uniformN(t, 2, "styp")]
	}
	if chancePct(t, 10, "customtype") {
		// an application's own data types: the free bits above USERDATA and unions with the
		// session-scoped ones (everything above STATICLOAD carries the session)
		tr.Typ = []uint8{64, 128, 192, 48, 96, 80, 144}[uniformN(t, 7, "ctyp")]
	}
	tr.Session = BS(genC11Str.Draw(t, "session"))
	tr.Key = BS(genC11Str.Draw(t, "key"))
	return tr
})

// variant redistributes the separators of a triple between session and key, or changes
// only the type: the neighbours most likely to collide.
func c11Variant(t *rapid.T, tr C11Triple) C11Triple {
	v := tr
	joined := string(tr.Session) + "." + string(tr.Key)
	switch uniformN(t, 6, "variant") {
	case 0:
		v.Typ = dbTypes[uniformN(t, len(dbTypes), "vtyp")]
	case 1:
		// split the same "session.key" string at another dot
		var dots []int
		for i := 0; i < len(joined); i++ {
			if joined[i] == '.' {
				dots = append(dots, i)
			}
		}
		d := dots[uniformN(t, len(dots), "dot")]
		v.Session, v.Key = BS(joined[:d]), BS(joined[d+1:])
	case 2:
		v.Session, v.Key = "", BS(joined)
	case 3:
		// a key that walks into the other session's file
		v.Session = "z"
		v.Key = BS("x/../" + string([]byte{tr.Typ + 0x30}) + joined)
		v.Typ = dbTypes[4+uniformN(t, 2, "wtyp")]
	case 4:
		// legacy name: a resource type reading <typechar><session.key>
		v.Typ = dbTypes[uniformN(t, 4, "ltyp")]
		v.Session = ""
		v.Key = BS(string([]byte{tr.Typ + 0x30}) + joined)
		if tr.Session == "" {
			v.Key = BS(string([]byte{tr.Typ + 0x30}) + string(tr.Key))
		}
	default:
		v.Session = BS(string(tr.Session) + "/../" + string(tr.Session))
	}
	return v
}

func genC11(t *rapid.T) C11Case {
	var c C11Case
	base := rapid.SliceOfN(genC11Triple, 1, 6).Draw(t, "base")
	for _, b := range base {
		c.Writes = append(c.Writes, b)
		if chancePct(t, 70, "variant") {
			c.Writes = append(c.Writes, c11Variant(t, b))
		}
		if chancePct(t, 40, "extra") {
			c.Extra = append(c.Extra, c11Variant(t, b))
		}
	}
	if chancePct(t, 12, "longsession") {
		// long session ids around buffer-size boundaries: two that differ in the last byte
		// only, and their common prefix
		n := []int{31, 32, 33, 63, 64, 65, 127, 128, 129, 200, 254, 255, 256, 300}[uniformN(t, 14, "sessionlen")]
		stem := strings.Repeat(string(rune('a'+uniformN(t, 26, "sessionfill"))), n-1)
		typ := dbTypes[4+uniformN(t, 2, "longtyp")]
		key := []string{"k", "state", "pin"}[uniformN(t, 3, "longkey")]
		for _, sid := range []string{stem + "1", stem + "2", stem} {
			c.Writes = append(c.Writes, C11Triple{Typ: typ, Session: BS(sid), Key: BS(key)})
		}
	}
	if chancePct(t, 30, "rewrite") {
		c.Writes = append(c.Writes, c.Writes[uniformN(t, len(c.Writes), "rewrite")])
	}
	return c
}

// --- the harness's model of how each backend names an entry -------------------------

func sidKey(tr C11Triple) string {
	if !sessioned(tr.Typ) || tr.Session == "" {
		return string(tr.Key)
	}
	return string(tr.Session) + "." + string(tr.Key)
}

type c11Names struct {
	write string   // where a Put lands
	reads []string // what a Get tries, in order
	raw   string   // the un-normalised primary name
}

func c11NamesFor(backend string, dir string, tr C11Triple) c11Names {
	switch backend {
	case "mem", "pg":
		k := string([]byte{tr.Typ}) + sidKey(tr)
		return c11Names{write: k, reads: []string{k}, raw: k}
	}
	t2 := tr
	if backend == "fsbin" {
		t2.Key = BS(base64.StdEncoding.EncodeToString([]byte(tr.Key)))
	}
	sk := sidKey(t2)
	primary := string([]byte{tr.Typ + 0x30}) + sk
	alt := sk
	if tr.Typ == db.DATATYPE_BIN {
		alt += ".bin"
	}
	return c11Names{write: path.Join(dir, primary), reads: []string{path.Join(dir, primary), path.Join(dir, alt)}, raw: primary}
}

// aliasFinding names the known finding that explains why a read of r shows the entry
// written as w on that backend, or "".
func aliasFinding(backend, dir string, r, w C11Triple) string {
	nr, nw := c11NamesFor(backend, dir, r), c11NamesFor(backend, dir, w)
	if nr.reads[0] == nw.write {
		if nr.raw == nw.raw {
			return "F-C11-1" // session and key are concatenated: the pair maps to one stored name
		}
		return "F-C11-2" // equal only after path normalisation
	}
	for _, p := range nr.reads[1:] {
		if p == nw.write {
			return "F-C11-3" // legacy file name without the type byte
		}
	}
	return ""
}

func c11Value(i int) []byte { return []byte("T" + strconv.Itoa(i) + ";") }

func c11Index(v []byte) int {
	if len(v) < 3 || v[0] != 'T' || v[len(v)-1] != ';' {
		return -1
	}
	n, err := strconv.Atoi(string(v[1 : len(v)-1]))
	if err != nil {
		return -1
	}
	return n
}

type c11Store struct {
	name    string
	dir     string // store directory (fs)
	sandbox string // parent of the store directory (fs)
	d       db.Db
}

func newC11Stores() []*c11Store {
	ctx := context.Background()
	var out []*c11Store
	m := memdb.NewMemDb()
	m.Connect(ctx, "")
	out = append(out, &c11Store{name: "mem", d: m})
	for _, bin := range []bool{false, true} {
		sandbox := workDir()
		dir := filepath.Join(sandbox, "deep", "store")
		d := fsdb.NewFsDb()
		name := "fs"
		if bin {
			d = d.WithBinary()
			name = "fsbin"
		}
		if err := d.Connect(ctx, dir); err != nil {
			panic(err)
		}
		out = append(out, &c11Store{name: name, dir: dir, sandbox: sandbox, d: d})
	}
	out = append(out, &c11Store{name: "pg", d: postgres.NewPgDb().WithConnection(pgfake.NewServer().Conn())})
	return out
}

func sameTriple(a, b C11Triple) bool {
	if a.Typ != b.Typ || a.Key != b.Key {
		return false
	}
	return !sessioned(a.Typ) || a.Session == b.Session
}

func (s *c11Store) tolerated(r, w C11Triple, o *Outcome) bool {
	f := aliasFinding(s.name, s.dir, r, w)
	if f != "" && tolerate(f) {
		o.Tolerated = append(o.Tolerated, f)
		return true
	}
	return false
}

func checkC11(c C11Case) (o Outcome) {
	ctx := context.Background()
	stores := newC11Stores()
	defer func() {
		for _, s := range stores {
			if s.sandbox != "" {
				os.RemoveAll(s.sandbox)
			}
		}
	}()
	interesting := false
	for i, a := range c.Writes {
		for _, b := range c.Writes[:i] {
			if !sameTriple(a, b) && (sidKey(a) == sidKey(b) || a.Key == b.Key || strings.Contains(string(a.Key), "..") || strings.Contains(string(a.Session), "..")) {
				interesting = true
			}
		}
	}
	for _, s := range stores {
		fail := func(kind, detail, format string, a ...any) Outcome {
			o.Viol = viol(kind, "backend %s: %s", s.name, fmt.Sprintf(format, a...))
			o.Viol.Detail = detail
			return o
		}
		s.d.SetLock(safeLock, false)
		accepted := make([]bool, len(c.Writes))
		for i, w := range c.Writes {
			s.d.SetPrefix(w.Typ)
			s.d.SetSession(string(w.Session))
			var err error
			if p := catchPanic(func() { err = s.d.Put(ctx, []byte(w.Key), c11Value(i)) }); p != nil {
				return fail("panic", "", "Put(%+v) panics: %s", w, p.val)
			}
			accepted[i] = err == nil
		}
		latest := func(r C11Triple) int {
			l := -1
			for i, w := range c.Writes {
				if accepted[i] && sameTriple(r, w) {
					l = i
				}
			}
			return l
		}
		reads := append(append([]C11Triple{}, c.Writes...), c.Extra...)
		for _, r := range reads {
			s.d.SetPrefix(r.Typ)
			s.d.SetSession(string(r.Session))
			var got []byte
			var err error
			if p := catchPanic(func() { got, err = s.d.Get(ctx, []byte(r.Key)) }); p != nil {
				return fail("panic", "", "Get(%+v) panics: %s", r, p.val)
			}
			want := latest(r)
			if err != nil {
				if want >= 0 {
					// maybe an aliased later write replaced it and is itself unreadable here: no —
					// an accepted write that cannot be read back is a loss
					lost := true
					for j := want + 1; j < len(c.Writes); j++ {
						if accepted[j] && aliasFinding(s.name, s.dir, r, c.Writes[j]) != "" {
							lost = false // overwritten through a known alias; covered by that finding
						}
					}
					if lost {
						return fail("own-data-lost", "", "triple %+v was written (write %d accepted) but reads back as error: %v", r, want, err)
					}
				}
				continue
			}
			j := c11Index(got)
			if j < 0 || j >= len(c.Writes) {
				return fail("foreign-value", "", "read of %+v returned %q, which no write of this case stored", r, got)
			}
			if j == want {
				continue
			}
			w := c.Writes[j]
			if sameTriple(r, w) {
				return fail("stale-value", "", "read of %+v returned the value of write %d, the latest accepted write is %d", r, j, want)
			}
			if s.tolerated(r, w, &o) {
				continue
			}
			kind := "other-session-data"
			if r.Typ != w.Typ {
				kind = "other-type-data"
			}
			return fail(kind, aliasFinding(s.name, s.dir, r, w), "read of (type %d, session %q, key %q) returned the value written as (type %d, session %q, key %q)", r.Typ, r.Session, r.Key, w.Typ, w.Session, w.Key)
		}
		// listings per data type and session (the resource types too: a handle that has a
		// session set and lists templates must not come back with session data)
		if s.dir != "" || s.name == "pg" {
			seen := map[string]bool{}
			for _, r := range reads {
				id := fmt.Sprintf("%d/%s", r.Typ, r.Session)
				if seen[id] {
					continue
				}
				seen[id] = true
				s.d.SetPrefix(r.Typ)
				s.d.SetSession(string(r.Session))
				var list []kv
				var err error
				// the listing is read with other lookups on the same handle in between (another
				// data type, then back): what an open listing returns is fixed when it is opened
				between := func() {
					for _, t2 := range []uint8{db.DATATYPE_USERDATA, db.DATATYPE_STATE, db.DATATYPE_TEMPLATE} {
						if t2 == r.Typ {
							continue
						}
						s.d.SetPrefix(t2)
						s.d.Get(ctx, []byte("k"))
					}
					s.d.SetPrefix(r.Typ)
				}
				if p := catchPanic(func() { list, err = dumpAllBetween(ctx, s.d, nil, between) }); p != nil {
					return fail("panic", "", "Dump under session %q panics: %s", r.Session, p.val)
				}
				if err != nil {
					continue
				}
				for _, e := range list {
					j := c11Index([]byte(e.v))
					if j < 0 || j >= len(c.Writes) {
						continue
					}
					w := c.Writes[j]
					if w.Typ == r.Typ && (w.Session == r.Session || !sessioned(r.Typ)) {
						continue
					}
					// known: the session id is a plain prefix of the stored name
					stored := sidKey(w)
					if s.name == "fsbin" {
						w2 := w
						w2.Key = BS(base64.StdEncoding.EncodeToString([]byte(w.Key)))
						stored = sidKey(w2)
					}
					if w.Typ == r.Typ && (r.Session == "" || strings.HasPrefix(stored, string(r.Session)+".")) && tolerate("F-C11-1") {
						o.Tolerated = append(o.Tolerated, "F-C11-1")
						continue
					}
					if f := aliasFinding(s.name, s.dir, C11Triple{r.Typ, r.Session, BS(e.k)}, w); f != "" && tolerate(f) {
						o.Tolerated = append(o.Tolerated, f)
						continue
					}
					det := ""
					if w.Typ == r.Typ && (r.Session == "" || strings.HasPrefix(stored, string(r.Session)+".")) {
						det = "F-C11-1"
					}
					return fail("listed-for-other-session", det, "listing type %d under session %q shows key %q with the value written as (type %d, session %q, key %q)", r.Typ, r.Session, e.k, w.Typ, w.Session, w.Key)
				}
			}
			// nothing may appear outside the store directory
			if esc := ""; s.dir != "" {
				esc = escaped(s.sandbox, s.dir)
				if esc == "" {
					continue
				}
				if tolerate("F-C11-2") {
					o.Tolerated = append(o.Tolerated, "F-C11-2")
				} else {
					return fail("escaped-store-directory", "F-C11-2", "a write created %s outside the store directory %s", esc, s.dir)
				}
			}
		}
	}
	o.NonTrivial = interesting
	return
}

// escaped reports a path below sandbox that is not inside dir.
func escaped(sandbox, dir string) string {
	found := ""
	filepath.Walk(sandbox, func(p string, info os.FileInfo, err error) error {
		if err != nil || found != "" {
			return nil
		}
		if p == dir {
			return filepath.SkipDir
		}
		if !info.IsDir() {
			found = p
		} else if p != sandbox && !strings.HasPrefix(dir, p+string(os.PathSeparator)) {
			found = p
		}
		return nil
	})
	return found
}

func init() {
	// The check computes from its own model of the backends' naming which finding (if any)
	// explains a cross-read and puts it in Detail; the predicates accept exactly that.
	for _, id := range []string{"F-C11-1", "F-C11-2", "F-C11-3"} {
		id := id
		knownPredicates["c11-alias-"+id] = func(sub string, raw json.RawMessage, v *Violation) bool {
			switch v.Kind {
			case "other-session-data", "other-type-data", "listed-for-other-session", "escaped-store-directory":
				return v.Detail == id
			}
			return false
		}
	}
}

var _ = registerReplay("C11", "triples", checkC11)
var _ = registerReplay("C11", "exhaustive", checkC11)

func TestC11(t *testing.T) {
	runKnownExamples(t, "C11")
	RunProp(t, "C11", "triples", pick(1500, 15000), genC11, checkC11)
	if t.Failed() {
		return
	}
	runC11Persister(t)
	if t.Failed() {
		return
	}
	// exhaustive: every session and key up to a length over a small hostile alphabet,
	// both session-scoped types, written then read in one store
	maxLen := 2
	if tier() == "thorough" {
		maxLen = 3
	}
	idx, n := shardInfo()
	if idx != 0 && n > 1 {
		return // one pass, one shard
	}
	var strs []string
	var rec func(prefix string, d int)
	rec = func(prefix string, d int) {
		strs = append(strs, prefix)
		if d == maxLen {
			return
		}
		for _, a := range []string{"a", ".", "/", "_"} {
			rec(prefix+a, d+1)
		}
	}
	rec("", 0)
	RunEnum(t, "C11", "exhaustive", true, fmt.Sprintf("all (type in {STATE, USERDATA}) x (session, key) with both strings of length <= %d over {a . / _}: written in one store per backend, then all read and listed", maxLen),
		func(yield func(C11Case) bool) {
			// chunked by session so that a replay stays small: each case writes one session's
			// keys plus every other session's keys of the same shape
			var c C11Case
			for _, typ := range []uint8{db.DATATYPE_STATE, db.DATATYPE_USERDATA} {
				for _, s := range strs {
					for _, k := range strs {
						c.Writes = append(c.Writes, C11Triple{typ, BS(s), BS(k)})
					}
				}
			}
			yield(c)
		}, checkC11)
}

var _ = bytes.Equal
