package props

import (
	"encoding/json"
	"fmt"
	"os"
	"testing"

	"verifharness/app"
)

// TestShow prints both transcripts of a C07-shaped replay file (debugging aid):
// VERIF_SHOW=<file> go test -run TestShow
func TestShow(t *testing.T) {
	path := os.Getenv("VERIF_SHOW")
	if path == "" {
		t.Skip()
	}
	b, _ := os.ReadFile(path)
	var rf replayFile
	json.Unmarshal(b, &rf)
	var c C07Case
	json.Unmarshal(rf.Case, &c)
	if c.Backend == "" {
		c.Backend = "mem"
	}
	long := app.NewSession(app.NewShared(c.App), app.Mode{Kind: "long"}, nil)
	storage, cleanup := newStorage(c.Backend)
	defer cleanup()
	pers := app.NewSession(app.NewShared(c.App), app.Mode{Kind: "persist", Backend: c.Backend}, storage)
	for i, in := range c.Inputs {
		ls := long.Request([]byte(in))
		ps := pers.Request([]byte(in))
		fmt.Printf("--- request %d %q\n", i, in)
		fmt.Printf("LONG %s\n     execErr=%q flushErr=%q panic=%q\n     calls: %s\n     after: %+v\n", ls.Visible(), ls.ExecErr, ls.FlushErr, ls.Panic, app.CallsString(ls.Calls), ls.After)
		fmt.Printf("PERS %s\n     execErr=%q flushErr=%q panic=%q\n     calls: %s\n     after: %+v\n", ps.Visible(), ps.ExecErr, ps.FlushErr, ps.Panic, app.CallsString(ps.Calls), ps.After)
	}
}
