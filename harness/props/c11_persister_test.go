package props

// C11, sub "persister": one persist.Persister object serving several sessions in turn —
// the use WithFlush() exists for (the state and memory are emptied after a successful
// Save so that the object can take the next session). What one session had in its state
// and cache must not show up in what the next session loads.
//
// Model-based: per session id the reference holds the content last saved (navigation path,
// client flags, pending code, cache scopes with their symbols, declared sizes); sessions are
// first written through persisters of their own, then a generated sequence of
// load → (check) → modify → save cycles runs on the one shared persister.

import (
	"context"
	"fmt"
	"reflect"
	"sort"
	"testing"

	"git.defalsify.org/vise.git/cache"
	"git.defalsify.org/vise.git/persist"
	"git.defalsify.org/vise.git/state"
	"pgregory.net/rapid"

	"verifharness/app"
)

type C11Content struct {
	Path   []string            `json:"path"`
	Flags  []uint32            `json:"flags,omitempty"` // client flags set
	Code   BS                  `json:"code,omitempty"`
	Lang   string              `json:"lang,omitempty"`
	Idx    uint16              `json:"idx,omitempty"` // lateral page index
	Frames []map[string]string `json:"frames"`        // cache scopes below the top one (one per path element)
}

type C11PCycle struct {
	Session int `json:"session"`
	// what the session does before it is saved again: nothing, descend one level and load a
	// symbol there, ascend one level
	Action string `json:"action"`
	Sym    string `json:"sym,omitempty"`
	Val    string `json:"val,omitempty"`
	// Foreign (db-session addressing): before this cycle another user of the same store
	// handle switches it to this session (index + 1; 0 = nobody does)
	Foreign int `json:"foreign,omitempty"`
}

type C11Persister struct {
	Backend  string       `json:"backend"`
	Sessions []string     `json:"sessions"`
	Initial  []C11Content `json:"initial"`
	Cycles   []C11PCycle  `json:"cycles"`
	Flush    bool         `json:"flush"` // WithFlush() on the shared persister
	// DbSession: sessions are addressed through Persister.WithSession(id) and one fixed key
	// (the session id lives in the store handle) instead of through the key
	DbSession bool `json:"db_session,omitempty"`
	// AsIs (without Flush): the shared persister keeps its state and memory objects from one
	// session to the next — each Load decodes over what the previous session left in them
	AsIs bool `json:"as_is,omitempty"`
}

var c11Syms = []string{"name", "pin", "balance", "iban", "x"}
var c11Vals = []string{"", "alice", "1234", "42 shillings", "NO9386011117947", "secret"}

func genC11Content(t *rapid.T) C11Content {
	depth := 1 + uniformN(t, 4, "depth")
	c := C11Content{}
	for i := 0; i < depth; i++ {
		c.Path = append(c.Path, []string{"root", "foo", "bar", "baz", "inky"}[i])
		f := map[string]string{}
		n := uniformN(t, 3, "nsyms")
		for j := 0; j < n; j++ {
			f[c11Syms[uniformN(t, len(c11Syms), "sym")]] = c11Vals[uniformN(t, len(c11Vals), "val")]
		}
		c.Frames = append(c.Frames, f)
	}
	// a symbol lives in one scope only
	seen := map[string]bool{}
	for _, f := range c.Frames {
		for k := range f {
			if seen[k] {
				delete(f, k)
			}
			seen[k] = true
		}
	}
	if chancePct(t, 40, "flag") {
		c.Flags = []uint32{8 + uint32(uniformN(t, 8, "flagv"))}
	}
	if chancePct(t, 40, "idx") {
		c.Idx = uint16(1 + uniformN(t, 3, "idxv"))
	}
	if chancePct(t, 30, "lang") {
		c.Lang = []string{"nor", "swa"}[uniformN(t, 2, "langv")]
	}
	if chancePct(t, 70, "code") {
		c.Code = BS([]byte{0, 7, 0, 8, 1, '_', 1, byte('0' + uniformN(t, 5, "codev"))})
	}
	return c
}

func genC11Persister(t *rapid.T) C11Persister {
	c := C11Persister{Backend: []string{"mem", "fs"}[uniformN(t, 2, "backend")], Flush: chancePct(t, 65, "flush"), DbSession: chancePct(t, 35, "dbsession")}
	c.AsIs = !c.Flush && chancePct(t, 60, "asis")
	n := 2 + uniformN(t, 3, "nsessions")
	c.Sessions = []string{"alice", "bob", "carol", "dave"}[:n]
	for i := 0; i < n; i++ {
		c.Initial = append(c.Initial, genC11Content(t))
	}
	c.Cycles = genSlice(t, rapid.Custom(func(t *rapid.T) C11PCycle {
		cy := C11PCycle{Session: uniformN(t, n, "session"), Action: []string{"none", "none", "down", "up"}[uniformN(t, 4, "action")]}
		if c.DbSession && chancePct(t, 40, "foreign") {
			cy.Foreign = 1 + uniformN(t, n, "foreignsession")
		}
		if cy.Action == "down" {
			cy.Sym = c11Syms[uniformN(t, len(c11Syms), "sym")]
			cy.Val = c11Vals[uniformN(t, len(c11Vals), "val")]
		}
		return cy
	}), 2, 12, "cycles")
	return c
}

const c11FlagCount = 16

// build turns a content description into state and cache objects.
func (c C11Content) build() (*state.State, *cache.Cache) {
	st := state.NewState(c11FlagCount)
	ca := cache.NewCache()
	for i, p := range c.Path {
		st.Down(p)
		ca.Push()
		keys := []string{}
		for k := range c.Frames[i] {
			keys = append(keys, k)
		}
		sort.Strings(keys)
		for _, k := range keys {
			ca.Add(k, c.Frames[i][k], 0)
		}
	}
	for _, f := range c.Flags {
		st.SetFlag(f)
	}
	st.SetCode(append([]byte{}, c.Code...))
	st.SizeIdx = c.Idx
	if c.Lang != "" {
		st.SetLanguage(c.Lang)
	}
	return st, ca
}

func c11Norm(s *app.Snapshot) string {
	if s == nil {
		return "<nil>"
	}
	var fr []map[string]string
	for _, f := range s.Frames {
		if len(f) == 0 {
			f = map[string]string{}
		}
		fr = append(fr, f)
	}
	return fmt.Sprintf("path=%v idx=%d flags=%x code=%x lang=%q frames=%v used=%d last=%q", s.Path, s.Idx, s.Flags, []byte(s.Code), s.Lang, fr, s.Used, s.Last)
}

func checkC11Persister(c C11Persister) (o Outcome) {
	if len(c.Sessions) < 2 || len(c.Initial) != len(c.Sessions) {
		o.Discard = "fewer-than-two-sessions"
		return
	}
	ctx := context.Background()
	storage, cleanup := newStorage(c.Backend)
	defer cleanup()
	store, err := storage.Open(ctx)
	if err != nil {
		o.Discard = "storage"
		return
	}
	want := make([]string, len(c.Sessions))
	for i, id := range c.Sessions {
		st, ca := c.Initial[i].build()
		pe0 := persist.NewPersister(store).WithContent(st, ca)
		key0 := id
		if c.DbSession {
			pe0, key0 = pe0.WithSession(id), "state"
		}
		if err := pe0.Save(key0); err != nil {
			o.Discard = "initial-save-fails"
			return
		}
		want[i] = c11Norm(app.TakeSnapshot(st, ca))
	}
	shared := persist.NewPersister(store).WithContent(state.NewState(c11FlagCount), cache.NewCache())
	if c.Flush {
		shared = shared.WithFlush()
	}
	foreign := false
	prev := -1
	for k, cy := range c.Cycles {
		if cy.Session < 0 || cy.Session >= len(c.Sessions) {
			o.Discard = "bad-session"
			return
		}
		id := c.Sessions[cy.Session]
		key := id
		if c.DbSession {
			if cy.Foreign > 0 && cy.Foreign <= len(c.Sessions) {
				store.SetSession(c.Sessions[cy.Foreign-1]) // someone else works on the store
			}
			shared = shared.WithSession(id)
			key = "state"
		}
		var lerr error
		if p := catchPanic(func() { lerr = shared.Load(key) }); p != nil {
			o.Viol = &Violation{Kind: "panic", Msg: fmt.Sprintf("cycle %d: Load(%q) on the shared persister panics: %s", k, id, p.val), Detail: p.stack}
			return
		}
		if lerr != nil {
			o.Viol = viol("shared-load-fails", "cycle %d: Load(%q) on the shared persister fails: %v", k, id, lerr)
			return
		}
		st, ca := shared.GetState(), shared.GetMemory().(*cache.Cache)
		got := c11Norm(app.TakeSnapshot(st, ca))
		if got != want[cy.Session] {
			o.Viol = viol("session-content-differs", "cycle %d: the persister that served %v before loads session %q as\n  %s\nbut the session was saved as\n  %s", k, c.Sessions[max(prev, 0)], id, got, want[cy.Session])
			return
		}
		if prev >= 0 && prev != cy.Session {
			foreign = true
		}
		// the session does something and is saved again
		pn := catchPanic(func() {
			switch cy.Action {
			case "down":
				if len(st.ExecPath) < 6 && st.ExecPath[len(st.ExecPath)-1] != "deep" {
					st.Down("deep")
					ca.Push()
					if _, e := ca.Get(cy.Sym); e != nil {
						ca.Add(cy.Sym, cy.Val, 0)
					}
				}
			case "up":
				if len(st.ExecPath) > 1 {
					st.Up()
					ca.Pop()
				}
			}
		})
		if pn != nil {
			o.Discard = "session-action-panics"
			return
		}
		want[cy.Session] = c11Norm(app.TakeSnapshot(st, ca))
		var serr error
		if c.DbSession {
			// (and may have moved the handle again while this session was being served)
			if cy.Foreign > 0 && cy.Foreign <= len(c.Sessions) && cy.Action != "none" {
				store.SetSession(c.Sessions[cy.Foreign-1])
			}
			shared = shared.WithSession(id)
		}
		if p := catchPanic(func() { serr = shared.Save(key) }); p != nil {
			o.Viol = &Violation{Kind: "panic", Msg: fmt.Sprintf("cycle %d: Save(%q) on the shared persister panics: %s", k, id, p.val), Detail: p.stack}
			return
		}
		if serr != nil {
			o.Viol = viol("shared-save-fails", "cycle %d: Save(%q) on the shared persister fails: %v", k, id, serr)
			return
		}
		if !c.Flush && !c.AsIs {
			// without WithFlush the caller hands the persister fresh objects for the next session
			shared = shared.WithContent(state.NewState(c11FlagCount), cache.NewCache())
		}
		prev = cy.Session
	}
	// and every session still loads as saved through a persister of its own
	for i, id := range c.Sessions {
		pe := persist.NewPersister(store).WithContent(state.NewState(c11FlagCount), cache.NewCache())
		keyN := id
		if c.DbSession {
			pe, keyN = pe.WithSession(id), "state"
		}
		if err := pe.Load(keyN); err != nil {
			o.Viol = viol("own-load-fails", "session %q does not load at the end: %v", id, err)
			return
		}
		if got := c11Norm(app.TakeSnapshot(pe.GetState(), pe.GetMemory().(*cache.Cache))); got != want[i] {
			o.Viol = viol("stored-content-differs", "session %q is stored as\n  %s\nbut was saved as\n  %s", id, got, want[i])
			return
		}
	}
	_ = reflect.DeepEqual
	o.NonTrivial = foreign
	if c.Flush {
		o.class("with-flush")
	} else if c.AsIs {
		o.class("same-objects-for-every-session")
	} else {
		o.class("fresh-objects-per-session")
	}
	o.class("backend:" + c.Backend)
	if c.DbSession {
		o.class("addressed-by-db-session")
	}
	return
}

var _ = registerReplay("C11", "persister", checkC11Persister)

func runC11Persister(t *testing.T) {
	RunProp(t, "C11", "persister", pick(800, 8000), genC11Persister, checkC11Persister)
}
