package props

// C17 — rejected input has no effect on the session.
//
// Metamorphic: history H and H with refused inputs inserted are served on two fresh
// copies of the same application; the refused requests must fail without output,
// without touching the session and without executing application code, and the
// accepted inputs must be answered identically in both runs, to the end.

import (
	"strings"
	"bytes"
	"context"
	"encoding/json"
	"git.defalsify.org/vise.git/state"
	"reflect"
	"testing"

	"git.defalsify.org/vise.git/engine"
	"pgregory.net/rapid"

	"verifharness/app"
)

type C17Insert struct {
	Pos   int `json:"pos"` // inserted before accepted input number Pos (0-based); == len: at the end
	Input BS  `json:"input"`
}

type C17Case struct {
	App        *app.App    `json:"app"`
	Inputs     []BS        `json:"inputs"`
	Inserts    []C17Insert `json:"inserts"`
	Mode       app.Mode    `json:"mode"`
	FlushOnErr bool        `json:"flush_on_err"`
	// ReuseBuf: the caller hands every input over in one and the same buffer
	ReuseBuf bool `json:"reuse_buf,omitempty"`
	// HoldRefused (engine-per-request operation): the engine whose first Exec was refused
	// for length is kept and serves the request after the next one
	HoldRefused bool `json:"hold_refused,omitempty"`
}

var c17Modes = []app.Mode{{Kind: "long"}, {Kind: "persist", Backend: "mem"}, {Kind: "persist", Backend: "fs"}, {Kind: "long+persist", Backend: "mem"}, {Kind: "persist", Backend: "pg"}}

var genRefused = rapid.Custom(func(t *rapid.T) string {
	switch uniformN(t, 10, "refkind") {
	case 0:
		if chancePct(t, 40, "longmultibyte") {
			// longer than the limit in bytes, not in characters
			head := []string{"a", "1", "+1"}[uniformN(t, 3, "mbhead")]
			fill := []string{"é", "é", "日", "ø"}[uniformN(t, 4, "mbfill")]
			n := (256-len(head)+len(fill)-1)/len(fill) + []int{0, 0, 1, 2, 40, 100}[uniformN(t, 6, "mbextra")]
			return head + strings.Repeat(fill, n)
		}
		fallthrough
	case 1:
		return string(bytes.Repeat([]byte{"1a9+x"[uniformN(t, 5, "longfill")]}, []int{256, 257, 300, 400, 1000, 256, 257, 300, 65535, 65536, 65537, 65700, 65791, 65792, 131072, 131200}[uniformN(t, 16, "toolong")]))
	case 2:
		// arbitrary bytes that do not start like an accepted input
		first := rapid.SampledFrom([]byte{'!', ' ', '\n', '-', '#', '_', '.', '*', 0x00, 0xff, '{', '/', '@'}).Draw(t, "first")
		rest := rapid.SliceOfN(rapid.Byte(), 0, 6).Draw(t, "rest")
		return string(append([]byte{first}, rest...))
	case 3:
		return "+" + rapid.SampledFrom([]string{"", "!", " 1", "+1", "\n"}).Draw(t, "plus")
	case 4:
		// accepted-looking but with a line break: the pattern's '.' does not cross it
		return rapid.SampledFrom([]string{"1\n", "a\nb", "0\n0", "+1\n"}).Draw(t, "nl")
	}
	if chancePct(t, 8, "refusedformat") {
		// inputs of the format whose registration the library refused
		return []string{"!abc", "!x", "!quit", "!a"}[uniformN(t, 4, "refusedformatv")]
	}
	if chancePct(t, 10, "customnear") {
		// near misses of the additional format #<1..3 digits>
		return []string{"#", "#1234", "#a", "# 1", "##1", "#1\n", "#12a"}[uniformN(t, 7, "customnearv")]
	}
	return rapid.SampledFrom([]string{"!x", " 1", "\n", "+", "+!", "\x001", "\xff\xfe", "-1", "#", "_", ".", "*", "<", ">", "^", "{{", " ", "  ", "\t", " \n", "\r\n"}).Draw(t, "refused")
})

func genC17(t *rapid.T) C17Case {
	o := fullOpts
	o.Sloppy = chancePct(t, 10, "sloppy")
	o.ResetEmpty = true
	a := GenApp(t, o)
	// (a first function that sets no flags: it also runs for the refused request, and what
	// it changes then is its own doing, not the refused input's)
	genFirst(t, a, 25, false)
	c := C17Case{App: a, Inputs: toBS(GenHistory(t, a, HistOpts{MaxLen: 8, Junk: true}))}
	c.Mode = c17Modes[uniformN(t, len(c17Modes), "mode")]
	c.FlushOnErr = chancePct(t, 30, "flushonerr")
	c.ReuseBuf = chancePct(t, 30, "reusebuf")
	c.HoldRefused = c.Mode.Kind == "persist" && chancePct(t, 30, "holdrefused")
	n := rapid.IntRange(1, 4).Draw(t, "ninserts")
	for i := 0; i < n; i++ {
		c.Inserts = append(c.Inserts, C17Insert{Pos: rapid.IntRange(0, len(c.Inputs)).Draw(t, "pos"), Input: BS(genRefused.Draw(t, "refused"))})
	}
	return c
}

type c17Req struct {
	in      string
	refused bool
	base    int // index in the base history (accepted inputs)
}

func (c C17Case) merged() []c17Req {
	var out []c17Req
	for i := 0; i <= len(c.Inputs); i++ {
		for _, ins := range c.Inserts {
			if ins.Pos == i {
				out = append(out, c17Req{in: string(ins.Input), refused: true, base: -1})
			}
		}
		if i < len(c.Inputs) {
			out = append(out, c17Req{in: string(c.Inputs[i]), base: i})
		}
	}
	return out
}

func snapEqual(a, b *app.Snapshot) string {
	if a == nil || b == nil {
		if a == b {
			return ""
		}
		return "one snapshot missing"
	}
	na, nb := normSnap(a), normSnap(b)
	switch {
	case !reflect.DeepEqual(na.Path, nb.Path) || na.Idx != nb.Idx:
		return "position"
	case !bytes.Equal(na.Flags, nb.Flags):
		return "flags"
	case na.Lang != nb.Lang:
		return "language"
	case !bytes.Equal(na.Code, nb.Code):
		return "pending bytecode"
	case !reflect.DeepEqual(na.Frames, nb.Frames):
		return "cached symbols"
	case na.Used != nb.Used:
		return "cache used size"
	}
	return ""
}

func maskInmatch(s *app.Snapshot) *app.Snapshot {
	if s == nil || len(s.Flags) == 0 {
		return s
	}
	c := *s
	c.Flags = append([]byte{}, s.Flags...)
	c.Flags[0] &^= 1 << state.FLAG_INMATCH
	return &c
}

func checkC17(c C17Case) (o Outcome) {
	for _, in := range c.Inputs {
		if !inputAccepted(string(in)) {
			o.Discard = "refused-input-in-base-history"
			return
		}
	}
	for _, ins := range c.Inserts {
		if inputAccepted(string(ins.Input)) {
			o.Discard = "accepted-input-as-insert"
			return
		}
		if ins.Pos < 0 || ins.Pos > len(c.Inputs) {
			o.Discard = "bad-insert-position"
			return
		}
	}
	mk := func() (*app.Session, func()) {
		var st app.Storage
		cleanup := func() {}
		if c.Mode.Kind != "long" {
			st, cleanup = newStorage(c.Mode.Backend)
		}
		s := app.NewSession(app.NewShared(c.App), c.Mode, st)
		s.ReuseBuf, s.HoldRefused = c.ReuseBuf, c.HoldRefused
		return s, cleanup
	}
	// F-C17-1: a long-lived engine with a persister whose very first input is refused for
	// its length never gets initialised
	if c.Mode.Kind == "long+persist" && tolerate("F-C17-1") {
		for _, ins := range c.Inserts {
			if ins.Pos == 0 && len(ins.Input) > 255 {
				o.Tolerated = append(o.Tolerated, "F-C17-1")
				o.class("excluded:F-C17-1")
				return
			}
		}
	}
	base, cleanA := mk()
	defer cleanA()
	mut, cleanB := mk()
	defer cleanB()
	baseSteps := map[int]app.Step{}
	ended, blockedEnd := false, false
	var prev *app.Snapshot
	pendingAfterHalt, followed := false, false
	nRefused := 0
	for i, r := range c.merged() {
		if r.refused {
			if ended && !blockedEnd {
				continue // after the end of the session nothing is specified
			}
			mut.FlushOnErr = c.FlushOnErr
			s := mut.Request([]byte(r.in))
			mut.FlushOnErr = false
			nRefused++
			if s.Panic != "" {
				o.Viol = &Violation{Kind: "refused-panic", Msg: "refused input " + describeVal(r.in) + " panics: " + s.Panic, Detail: s.Stack}
				return
			}
			if s.Exceeded {
				o.Discard = "move-budget"
				return
			}
			if s.ExecErr == "" {
				o.Viol = viol("refused-accepted", "request %d: input %s must be refused but Exec returned no error (cont=%v)", i, describeVal(r.in), s.Cont)
				return
			}
			if s.Out != "" {
				o.Viol = viol("refused-output", "request %d: refused input %s produced output %q", i, describeVal(r.in), s.Out)
				return
			}
			if c.FlushOnErr && s.Flushed && s.FlushErr == "" {
				// asking for output after a refused Exec: no output (checked above) and no trace
				// (checked below); whether the call also reports an error is not demanded — after
				// an earlier request there is an execution whose output has simply been fetched
				if i == 0 {
					o.Viol = viol("flush-after-refusal", "request %d: Flush after the refused input %s on an engine that has executed nothing succeeded", i, describeVal(r.in))
					return
				}
				o.class("flush-after-refusal:no-output-no-error")
			}
			for _, cl := range s.Calls {
				if cl.Kind == "call" || cl.Kind == "func" {
					o.Viol = viol("refused-executes", "request %d: refused input %s executed application code: %s", i, describeVal(r.in), app.CallsString(s.Calls))
					return
				}
			}
			if len(s.Calls) > 0 {
				o.class("refused-request-does-lookups")
			}
			if prev != nil {
				pa, sa := prev, s.After
				if c.App.Cfg.First != nil {
					// the engine's first function is run (a VM run of its own) when an engine
					// starts serving, before the input is looked at; a run begins by clearing
					// INMATCH, which no later run reads before clearing it again
					pa, sa = maskInmatch(pa), maskInmatch(sa)
				}
				if sa == nil && c.Mode.Kind != "long" && snapshotHasInvalidUTF8(pa) && tolerate("F-C07-1") {
					// the stored session holds a value that is not valid UTF-8 and cannot be
					// loaded again (F-C07-1): there is nothing to read the "after" from
					o.Tolerated = append(o.Tolerated, "F-C07-1")
					break
				}
				if d := snapEqual(pa, sa); d != "" {
					o.Viol = viol("refused-changes-session", "request %d: refused input %s changed the session's %s:\n before %+v\n after  %+v", i, describeVal(r.in), d, prev, s.After)
					return
				}
				if len(prev.Code) > 0 {
					pendingAfterHalt = true
				}
			}
			if s.FinishErr != "" {
				o.Viol = viol("save-failed", "request %d: saving after the refused input failed: %s", i, s.FinishErr)
				return
			}
			continue
		}
		if ended && blockedEnd {
			continue // only the refused inputs still go to the blocked stored session
		}
		if ended {
			break
		}
		a := base.Request([]byte(r.in))
		b := mut.Request([]byte(r.in))
		baseSteps[r.base] = a
		if a.Exceeded || b.Exceeded {
			o.Discard = "move-budget"
			return
		}
		if a.Panic != "" || b.Panic != "" {
			if (a.Panic != "") != (b.Panic != "") {
				o.Viol = viol("panic-one-side", "accepted input %d (%q): plain run panic=%q, run with refused inputs panic=%q", r.base, r.in, a.Panic, b.Panic)
				return
			}
			break
		}
		if a.Visible() != b.Visible() {
			o.Viol = viol("accepted-differs", "accepted input %d (%q) in mode %v:\n without refused inputs: %s (%s)\n with refused inputs   : %s (%s)", r.base, r.in, c.Mode, a.Visible(), a.ExecErr+a.FlushErr, b.Visible(), b.ExecErr+b.FlushErr)
			return
		}
		if a.ExecErr != "" || a.FlushErr != "" || !a.Cont {
			ended = true
			// a stored session that ended blocked (TERMINATE set) is still a session: refused
			// inputs must leave it as it is
			if c.Mode.Kind == "persist" && a.After != nil && b.After != nil && terminateOf(b.After.Flags) && snapEqual(a.After, b.After) == "" {
				blockedEnd = true
				prev = b.After
				o.class("refused-input-to-blocked-session")
			}
			continue
		}
		if d := snapEqual(a.After, b.After); d != "" {
			o.Viol = viol("session-differs", "after accepted input %d (%q): the session's %s differs between the runs:\n plain %+v\n with refused %+v", r.base, r.in, d, a.After, b.After)
			return
		}
		if c.Mode.Kind != "long" && b.After != nil && snapshotHasInvalidUTF8(b.After) && tolerate("F-C07-1") {
			// a cached value that is not valid UTF-8 cannot be loaded again (F-C07-1)
			o.Tolerated = append(o.Tolerated, "F-C07-1")
			return
		}
		prev = b.After
		if nRefused > 0 && pendingAfterHalt {
			followed = true
		}
	}
	o.NonTrivial = pendingAfterHalt && followed
	o.class("mode:" + c.Mode.Kind + "/" + c.Mode.Backend)
	if c.FlushOnErr {
		o.class("flush-after-refusal")
	}
	for _, ins := range c.Inserts {
		if ins.Pos == 0 {
			o.class("refused-first")
		}
		if len(ins.Input) > 255 {
			o.class("refused-by-length")
		} else {
			o.class("refused-by-pattern")
		}
	}
	return
}

// flush before anything was executed
type C17Flush struct {
	App  *app.App `json:"app"`
	Mode string   `json:"mode"` // plain | persist
}

func checkC17Flush(c C17Flush) (o Outcome) {
	ctx := context.Background()
	rec := app.NewRecorder()
	en := engine.NewEngine(app.EngineConfig(c.App.Cfg), app.NewShared(c.App).Resource(rec))
	var buf bytes.Buffer
	n, err := en.Flush(ctx, &buf)
	if err == nil || n != 0 || buf.Len() != 0 {
		o.Viol = viol("flush-before-exec", "Flush on an engine that executed nothing: n=%d err=%v out=%q", n, err, buf.String())
		return
	}
	if err != engine.ErrFlushNoExec {
		o.class("other-error-than-ErrFlushNoExec")
	}
	if len(rec.Calls) != 0 {
		o.Viol = viol("flush-before-exec-lookups", "Flush before Exec touched the resource: %s", app.CallsString(rec.Calls))
		return
	}
	// and the engine still serves the first request normally afterwards
	cont, err := en.Exec(ctx, []byte{})
	buf.Reset()
	var ferr error
	if err == nil {
		_, ferr = en.Flush(ctx, &buf)
	}
	ref := app.NewSession(app.NewShared(c.App), app.Mode{Kind: "long"}, nil).Request(nil)
	got := app.Step{Cont: cont, Out: buf.String()}
	if err != nil {
		got.ExecErr = err.Error()
	}
	if ferr != nil {
		got.FlushErr = ferr.Error()
	}
	if ref.Panic == "" && got.Visible() != ref.Visible() {
		o.Viol = viol("flush-before-exec-effect", "first request after a refused Flush: %s, without it: %s", got.Visible(), ref.Visible())
		return
	}
	o.NonTrivial = true
	return
}

func init() {
	knownPredicates["c17-long-persist-first-input-too-long"] = func(sub string, raw json.RawMessage, v *Violation) bool {
		var c C17Case
		if json.Unmarshal(raw, &c) != nil || c.Mode.Kind != "long+persist" {
			return false
		}
		for _, ins := range c.Inserts {
			if ins.Pos == 0 && len(ins.Input) > 255 {
				return v.Kind == "accepted-differs" || v.Kind == "session-differs"
			}
		}
		return false
	}
}

var _ = registerReplay("C17", "meta", checkC17)
var _ = registerReplay("C17", "flush", checkC17Flush)

func TestC17(t *testing.T) {
	enableCustomInputFormat()
	runKnownExamples(t, "C17")
	RunProp(t, "C17", "meta", pick(1500, 15000), genC17, checkC17)
	if t.Failed() {
		return
	}
	RunProp(t, "C17", "flush", pick(200, 2000), func(t *rapid.T) C17Flush {
		return C17Flush{App: GenApp(t, fullOpts)}
	}, checkC17Flush)
}
