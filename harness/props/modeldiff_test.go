package props

// Lock-step comparison of the real engine with the reference interpreter (model),
// shared by the model-based properties C03, C04, C05, C06, C18, C20.

import (
	"context"
	"fmt"
	"os"
	"reflect"
	"strings"

	"verifharness/app"
	"verifharness/model"
	"verifharness/refdec"
)

type diffAspects struct {
	position bool // node path and page index
	fetches  bool // ordered bytecode fetches (one per move)
	calls    bool // ordered external function calls (symbol, input, ordinal)
	callLang bool // language on every function lookup and call
	lookups  bool // full ordered lookup log incl. template/menu (when the model predicts it)
	flags    bool // client flags + TERMINATE
	lang     bool // session language
	cache    bool // cache scopes and values
	output   bool // rendered output / flush error
	cont     bool
}

var allAspects = diffAspects{true, true, true, true, true, true, true, true, true, true}

type diffFeatures struct {
	requests                                                            int
	bail                                                                string
	multiMatch, wildNotLast, noMatch, relative, prevAtZero              bool
	descents, ascents, laterals, rewinds, repeats, failingMoves         int
	maxDepth                                                            int
	reloaded, reentered, limitHit, emptyResult                          bool
	langSwitches, invalidLang, renderErrors, execErrors                 int
	translatedRender, untranslatedRender                                bool
	ended                                                               string
	afterEnd                                                            int
	catchVisits                                                         int
	flagsChanged, catchFired, catchSkipped, reservedInResult, terminate bool
	loadfail                                                            bool
}

func clientFlagsOf(flags []byte) []uint32 {
	var out []uint32
	for i := 8; i < 8*len(flags); i++ {
		if flags[i/8]&(1<<(uint(i)%8)) != 0 {
			out = append(out, uint32(i))
		}
	}
	return out
}

func terminateOf(flags []byte) bool { return len(flags) > 0 && flags[0]&(1<<6) != 0 }

func callsOfKind(cs []app.Call, kinds ...string) []app.Call {
	var out []app.Call
	for _, c := range cs {
		for _, k := range kinds {
			if c.Kind == k {
				out = append(out, c)
			}
		}
	}
	return out
}

func fmtCalls(cs []app.Call) string { return app.CallsString(cs) }

// matchOutput compares a real output with a predicted one in which the error line is a
// sentinel: the real text there must be a non-empty single line; for invalid input it
// must show the input.
func matchOutput(real, want, input string, invalidInput bool) string {
	i := strings.Index(want, model.ErrSentinel)
	if i < 0 {
		if real != want {
			return fmt.Sprintf("output %q, documented semantics give %q", real, want)
		}
		return ""
	}
	pre, post := want[:i], want[i+len(model.ErrSentinel):]
	if !strings.HasPrefix(real, pre) || !strings.HasSuffix(real, post) || len(real) < len(pre)+len(post) {
		return fmt.Sprintf("output %q does not have the form %q<error line>%q", real, pre, post)
	}
	line := real[len(pre) : len(real)-len(post)]
	if line == "" || strings.Contains(line, "\n") {
		return fmt.Sprintf("output %q: the error line %q is not one non-empty line", real, line)
	}
	if invalidInput && !strings.Contains(line, input) {
		return fmt.Sprintf("output %q: the invalid-input message %q does not show the input %q", real, line, input)
	}
	return ""
}

// operator steps between requests (C06/C20): clear TERMINATE in the stored / live state
type diffHooks struct {
	// beforeRequest may manipulate both sides (e.g. clear TERMINATE); i is the request index
	beforeRequest func(i int, real *app.Session, m *model.Session)
	// useDb: serve the application through resource.DbResource over a memdb
	useDb bool
	// usePo: serve templates and labels through resource.PoResource over generated
	// gettext catalogues
	usePo bool
	// prior (Mode.Reuse): requests of an earlier session, served through the same persister
	prior []BS
}

// modelDiff serves the history on the real engine and on the model and compares.
func modelDiff(a *app.App, inputs []BS, mode app.Mode, asp diffAspects, hooks *diffHooks) (v *Violation, f diffFeatures, discard string) {
	var storage app.Storage
	cleanup := func() {}
	if mode.Kind != "long" && mode.Kind != "objects" {
		storage, cleanup = newStorage(mode.Backend)
	}
	defer cleanup()
	shared := app.NewShared(a)
	shared.UseDb = hooks != nil && hooks.useDb
	if hooks != nil && hooks.usePo && !shared.UseDb {
		dir := workDir()
		defer os.RemoveAll(dir)
		if err := shared.WritePo(dir); err != nil {
			return nil, f, "cannot-write-catalogues"
		}
		shared.UsePo, shared.PoDir = true, dir
	}
	if shared.UseDb && mode.Kind == "persist" && mode.Backend == "mem" && len(inputs)%2 == 0 {
		// one store object for the application's data and its sessions
		if d, err := storage.Open(context.Background()); err == nil {
			shared.DbStore = d
		}
	}
	real := app.NewSession(shared, mode, storage)
	var pred *app.Session
	if mode.Reuse != "" {
		real.PeBox = &app.PeBox{}
		if hooks != nil && len(hooks.prior) > 0 {
			pred = app.NewSession(shared, mode, storage)
			pred.Cfg.SessionId = "other-session"
			pred.PeBox = real.PeBox
		}
	}
	m := model.New(a, mode.PerRequest())
	seenNodes := map[string]int{}
	for i, inb := range inputs {
		in := string(inb)
		if pred != nil && i < len(hooks.prior) {
			// the other session's turn on the shared persister
			if st := pred.Request([]byte(hooks.prior[i])); st.Panic != "" || st.Exceeded {
				// nobody keeps using the objects a panic went through
				real.PeBox.Pe = nil
				pred = nil
			}
		}
		if hooks != nil && hooks.beforeRequest != nil {
			hooks.beforeRequest(i, real, m)
		}
		// which INCMP lines of the section about to run could match this input?
		{
			could, lastWild, sawWild, nincmp := 0, false, false, 0
			for _, pin := range m.Pending {
				if pin.Op == refdec.HALT {
					break
				}
				if pin.Op == refdec.INCMP {
					nincmp++
					lastWild = string(pin.Sel) == "*"
					if lastWild {
						sawWild = true
					}
					if string(pin.Sel) == "*" || string(pin.Sel) == in {
						could++
						if string(pin.Sym) == "<" && m.Idx == 0 {
							f.prevAtZero = true
						}
					} else if sawWild {
						f.wildNotLast = true
					}
				}
			}
			if could >= 2 {
				f.multiMatch = true
			}
			if sawWild && !lastWild {
				f.wildNotLast = true
			}
		}
		prevDepth := len(m.Stack)
		prevIdx := m.Idx
		prevLang := m.Lang
		prevFlags := fmt.Sprint(m.ClientFlags())
		ms := m.Request(in)
		rs := real.Request([]byte(in))
		f.requests++
		if rs.Exceeded {
			return nil, f, "move-budget"
		}
		if ms.Bail != "" && ms.BailNow {
			f.bail = ms.Bail
			return nil, f, ""
		}
		at := func(kind, format string, args ...any) *Violation {
			return viol(kind, "request %d (input %s, mode %s/%s): %s\n model: %s", i, describeVal(in), mode.Kind, mode.Backend, fmt.Sprintf(format, args...), m.Describe())
		}
		if rs.Panic != "" {
			if strings.HasPrefix(rs.Panic, "down into same node") {
				return nil, f, "dynamic-self-move"
			}
			return &Violation{Kind: "panic", Msg: fmt.Sprintf("request %d (input %s) panics: %s", i, describeVal(in), rs.Panic), Detail: rs.Stack}, f, ""
		}
		if rs.Tampered != "" {
			return at("application-memory-changed", "%s", rs.Tampered), f, ""
		}
		if ms.Refused {
			if rs.ExecErr == "" {
				return at("refused-accepted", "the input must be refused but Exec returned no error"), f, ""
			}
			continue
		}
		if ms.ExecErr != (rs.ExecErr != "") {
			return at("exec-error-differs", "execution error: implementation %q, documented semantics: %v (%s)", rs.ExecErr, ms.ExecErr, ms.ErrWhy), f, ""
		}
		if ms.ExecErr {
			if mode.PerRequest() && ms.Bail == "" {
				// of the failed request itself only this is compared: a value that was refused
				// is not what the cache remembers as its last value; the next request starts over
				if asp.cache && rs.After != nil && rs.After.Last != m.Last && strings.Contains(ms.ErrWhy, "limit") {
					return at("last-value-differs", "after the refused result (%s) the cache's last value is %q, the last value stored is %q", ms.ErrWhy, rs.After.Last, m.Last), f, ""
				}
				f.execErrors++
				continue
			}
			f.bail = "execution error"
			return nil, f, ""
		}
		// classification of what happened (from the model's side)
		for _, mv := range ms.Moves {
			switch mv {
			case "_":
				f.ascents++
				f.relative = true
			case "^":
				f.rewinds++
				f.relative = true
			case ".":
				f.repeats++
				f.relative = true
			case ">", "<":
				f.laterals++
				f.relative = true
			default:
				f.descents++
				seenNodes[mv]++
				if seenNodes[mv] > 1 {
					f.reentered = true
				}
			}
		}
		if len(m.Stack) > f.maxDepth {
			f.maxDepth = len(m.Stack)
		}
		if ms.Catch != "" {
			f.catchVisits++
		}
		if ms.Catch == "invalid-input" {
			f.noMatch = true
		}
		if ms.Catch == "loadfail" {
			f.loadfail = true
		}
		if m.Lang != prevLang {
			f.langSwitches++
		}
		if fmt.Sprint(m.ClientFlags()) != prevFlags {
			f.flagsChanged = true
		}
		if ms.Ended != "" && f.ended == "" {
			f.ended = ms.Ended
		} else if f.ended != "" {
			f.afterEnd++
		}
		if m.Terminated() {
			f.terminate = true
		}
		_ = prevDepth
		_ = prevIdx
		for _, c := range ms.Calls {
			if c.Kind == "call" && c.N > 0 {
				f.reloaded = true
			}
			if c.Lang != "" && (c.Kind == "template" || c.Kind == "menu" || c.Kind == "call") {
				tr := a.TransFor(c.Lang)
				has := false
				if tr != nil {
					switch c.Kind {
					case "template":
						_, has = tr.Templates[c.Sym]
					case "menu":
						_, has = tr.Menus[c.Sym]
					case "call":
						_, has = tr.Statics[c.Sym]
					}
				}
				if has {
					f.translatedRender = true
				} else {
					f.untranslatedRender = true
				}
			}
			if c.Kind == "call" && c.Sym == "lang" {
				if sp := a.Sym("lang"); sp != nil && len(sp.Results) > 0 {
					r := sp.Results[min(c.N, len(sp.Results)-1)]
					if _, ok := model.NormaliseLang(r.Content); !ok {
						f.invalidLang++
					}
				}
			}
		}
		// --- comparisons
		if ms.FlushAny && rs.FlushErr != "" {
			// a size-constrained render the model does not predict failed: what the engine
			// leaves behind then is not specified
			if asp.cont && ms.Cont != rs.Cont {
				return at("cont-differs", "cont: implementation %v, documented semantics %v (ended: %q)", rs.Cont, ms.Cont, ms.Ended), f, ""
			}
			f.bail = "render error (size)"
			return nil, f, ""
		}
		if asp.cont && ms.Cont != rs.Cont {
			return at("cont-differs", "cont: implementation %v, documented semantics %v (ended: %q)", rs.Cont, ms.Cont, ms.Ended), f, ""
		}
		// the catch page for invalid input opens with a line showing that input, also where
		// the page's length (and so the rest of it) is not predicted
		// (not at the graceful end of a session: there the last cached value is what is
		// emitted when the page itself does not fit, known finding F-C01-1)
		if asp.output && ms.FlushAny && ms.Catch == "invalid-input" && ms.Ended == "" && rs.Cont && rs.FlushErr == "" && rs.ExecErr == "" && rs.Out != "" && !ms.FlushErr {
			first := strings.SplitN(rs.Out, "\n", 2)[0]
			if !strings.Contains(first, in) || (in == "" && !strings.Contains(strings.ToLower(first), "invalid")) {
				return at("output-differs", "the catch page for invalid input opens with %q, which does not show the input %q (whole output %q)", first, in, rs.Out), f, ""
			}
		}
		if asp.fetches {
			got := callsOfKind(rs.Calls, "code")
			var gotNodes []string
			for _, c := range got {
				gotNodes = append(gotNodes, c.Sym)
			}
			// the render of a lateral index past the last page falls back to the catch node
			// (one more fetch); the model flags those renders as undecided
			if !(ms.FlushAny) && !reflect.DeepEqual(gotNodes, ms.Fetches) && !(len(gotNodes) == 0 && len(ms.Fetches) == 0) {
				return at("moves-differ", "bytecode fetched for nodes %v, the documented semantics move to %v (moves executed: %v)", gotNodes, ms.Fetches, ms.Moves), f, ""
			}
		}
		if asp.output && !ms.FlushAny {
			if ms.FlushErr != (rs.FlushErr != "") {
				return at("flush-error-differs", "render error: implementation %q, documented semantics %v", rs.FlushErr, ms.FlushErr), f, ""
			}
			if ms.OutKnown && !ms.FlushErr {
				if d := matchOutput(rs.Out, ms.Out, in, ms.Catch == "invalid-input"); d != "" {
					return at("output-differs", "%s", d), f, ""
				}
			}
		}
		if rs.FlushErr != "" && ms.Ended == "graceful" {
			// the final page of a session failed to render: whether the engine still
			// restarts the session is not specified
			f.bail = "render error"
			return nil, f, ""
		}
		after := rs.After
		if asp.position && after != nil && !ms.FlushAny && !(ms.Croaked && ms.Catch != "") {
			if !reflect.DeepEqual(append([]string{}, after.Path...), append([]string{}, m.Stack...)) || int(after.Idx) != m.Idx {
				if !(len(after.Path) == 0 && len(m.Stack) == 0) {
					return at("position-differs", "position %v[%d], the documented move table gives %v[%d] (moves executed: %v)", after.Path, after.Idx, m.Stack, m.Idx, ms.Moves), f, ""
				}
			}
		}
		if asp.calls {
			got, want := callsOfKind(rs.Calls, "call"), callsOfKind(ms.Calls, "call")
			strip := func(cs []app.Call) []string {
				var out []string
				for _, c := range cs {
					out = append(out, fmt.Sprintf("%s(%q)#%d", c.Sym, c.Input, c.N))
				}
				return out
			}
			if !reflect.DeepEqual(strip(got), strip(want)) {
				return at("calls-differ", "external functions called: %v, documented semantics: %v", strip(got), strip(want)), f, ""
			}
		}
		if asp.callLang {
			got, want := callsOfKind(rs.Calls, "call", "func"), callsOfKind(ms.Calls, "call", "func")
			if len(got) == len(want) {
				for j := range got {
					if got[j].Lang != want[j].Lang {
						return at("lookup-language", "%s of %s was made in language %q, the session language at that point is %q", got[j].Kind, got[j].Sym, got[j].Lang, want[j].Lang), f, ""
					}
				}
			}
		}
		if asp.lookups && ms.Lookups && ms.Bail == "" {
			got := rs.Calls
			want := ms.Calls
			if fmtCalls(got) != fmtCalls(want) {
				return at("lookups-differ", "resource lookups\n   implementation: %s\n   documented    : %s", fmtCalls(got), fmtCalls(want)), f, ""
			}
		}
		if asp.flags && after != nil {
			if !reflect.DeepEqual(clientFlagsOf(after.Flags), m.ClientFlags()) && !(len(clientFlagsOf(after.Flags)) == 0 && len(m.ClientFlags()) == 0) {
				return at("flags-differ", "client flags set: %v, documented semantics: %v", clientFlagsOf(after.Flags), m.ClientFlags()), f, ""
			}
			if terminateOf(after.Flags) != m.Terminated() {
				return at("terminate-differs", "TERMINATE: implementation %v, documented semantics %v", terminateOf(after.Flags), m.Terminated()), f, ""
			}
		}
		if asp.lang && after != nil && after.Lang != m.Lang {
			return at("language-differs", "session language %q, documented semantics %q", after.Lang, m.Lang), f, ""
		}
		if ms.FlushAny && after != nil && !reflect.DeepEqual(append([]string{}, after.Path...), append([]string{}, m.Stack...)) {
			// the lateral index was past the last page: the engine fell back to the catch node
			if len(after.Path) == len(m.Stack)+1 && after.Path[len(after.Path)-1] == "_catch" {
				f.bail = "browse past the last page (catch)"
				f.failingMoves++
				return nil, f, ""
			}
			return at("position-differs", "position %v[%d], the documented move table gives %v[%d]", after.Path, after.Idx, m.Stack, m.Idx), f, ""
		}
		if asp.cache && after != nil && !ms.FlushAny && !ms.Croaked {
			want := make([]map[string]string, len(m.Frames))
			for j, fr := range m.Frames {
				want[j] = map[string]string(fr)
			}
			if !framesEqual(after.Frames, want) {
				return at("cache-differs", "cache scopes %v, documented semantics %v", after.Frames, want), f, ""
			}
			// what the cache says it holds is what it holds (a refused RELOAD leaves both alone)
			sum := 0
			for _, fr := range after.Frames {
				for _, v := range fr {
					sum += len(v)
				}
			}
			if int(after.Used) != sum {
				return at("cache-accounting-differs", "the cache reports %d bytes in use, its scopes %v hold %d", after.Used, after.Frames, sum), f, ""
			}
			// the value kept for the end of the session is the last one that was stored
			if after.Last != m.Last && ms.Ended == "" && !ms.FlushAny {
				return at("last-value-differs", "the cache's last value is %q, the last value stored by a LOAD is %q", after.Last, m.Last), f, ""
			}
		}
		if ms.Bail != "" {
			f.bail = ms.Bail
			return nil, f, ""
		}
		if rs.FlushErr != "" {
			// a failed render is an error for that request; the session itself (compared
			// above) is where the code left it, and the history goes on
			f.renderErrors++
		}
		if !rs.Cont && !mode.PerRequest() {
			return nil, f, ""
		}
	}
	return nil, f, ""
}

func framesEqual(a, b []map[string]string) bool {
	if len(a) != len(b) {
		return false
	}
	for i := range a {
		if len(a[i]) != len(b[i]) {
			return false
		}
		for k, v := range a[i] {
			if w, ok := b[i][k]; !ok || w != v {
				return false
			}
		}
	}
	return true
}

// modelFriendly reorders the instructions before each HALT so that CATCH/CROAK come
// after the LOADs (whose results set the flags they test) and before MAP/menu lines —
// the order the documentation's examples use, and the one for which the documents say
// what a firing CATCH leaves behind.
func modelFriendly(a *app.App) {
	for ni := range a.Nodes {
		code := a.Nodes[ni].Code
		var out []app.Instr
		start := 0
		flush := func(end int) {
			var loads, sigs, rest []app.Instr
			for _, in := range code[start:end] {
				switch in.Op {
				case refdec.LOAD:
					loads = append(loads, in)
				case refdec.CATCH, refdec.CROAK:
					sigs = append(sigs, in)
				default:
					rest = append(rest, in)
				}
			}
			out = append(out, loads...)
			out = append(out, sigs...)
			out = append(out, rest...)
		}
		for i, in := range code {
			switch in.Op {
			case refdec.HALT, refdec.INCMP, refdec.MOVE:
				// a section ends at the first of these; keep everything from here to the
				// next pre-HALT region in place
				flush(i)
				out = append(out, in)
				start = i + 1
			}
		}
		flush(len(code))
		a.Nodes[ni].Code = out
	}
}
