package props

// C15, sub "stateful": malformed bytecode executed by a VM that has already run — symbols
// in the cache, flags left by earlier instructions, external functions that failed. Whatever
// state an earlier (valid) run left behind, a run that reaches a malformed instruction
// returns an error.

import (
	"context"
	"fmt"
	"testing"

	"git.defalsify.org/vise.git/cache"
	"git.defalsify.org/vise.git/resource"
	"git.defalsify.org/vise.git/state"
	"git.defalsify.org/vise.git/vm"
	"pgregory.net/rapid"

	"verifharness/refdec"
)

type C15Stateful struct {
	Pre    []Instr          `json:"pre"`     // earlier valid runs (each run ends at a HALT)
	FailAt map[string][]int `json:"fail_at"` // symbol -> call ordinals at which its function fails
	Post   []Instr          `json:"post"`    // what the malformed code starts with (valid, does not end the run)
	Tail   string           `json:"tail"`    // how it goes wrong: trunc-sym, trunc-size, trunc-int, longint, opcode, halfop
	TSym   string           `json:"tsym"`    // symbol of the malformed instruction
	Input  BS               `json:"input,omitempty"`
}

var c15Syms = []string{"foo", "bar", "baz"}

func genC15Stateful(t *rapid.T) C15Stateful {
	c := C15Stateful{FailAt: map[string][]int{}}
	sym := func(label string) refdec.BS { return refdec.BS(c15Syms[uniformN(t, len(c15Syms), label)]) }
	n := 1 + uniformN(t, 8, "npre")
	for i := 0; i < n; i++ {
		switch uniformN(t, 10, "prekind") {
		case 0, 1, 2, 3:
			c.Pre = append(c.Pre, Instr{Op: refdec.LOAD, Sym: sym("sym"), Num: uint32([]int{0, 3, 20}[uniformN(t, 3, "size")])})
		case 4, 5, 6:
			c.Pre = append(c.Pre, Instr{Op: refdec.RELOAD, Sym: sym("sym")})
		case 7:
			c.Pre = append(c.Pre, Instr{Op: refdec.MAP, Sym: sym("sym")})
		case 8:
			c.Pre = append(c.Pre, Instr{Op: refdec.HALT})
		default:
			c.Pre = append(c.Pre, Instr{Op: refdec.MOUT, Sym: "label", Sel: "1"})
		}
	}
	c.Pre = append(c.Pre, Instr{Op: refdec.HALT})
	for _, s := range c15Syms {
		if chancePct(t, 40, "fails") {
			c.FailAt[s] = []int{uniformN(t, 4, "failat")}
		}
	}
	m := uniformN(t, 4, "npost")
	for i := 0; i < m; i++ {
		switch uniformN(t, 4, "postkind") {
		case 0, 1:
			c.Post = append(c.Post, Instr{Op: refdec.LOAD, Sym: sym("psym"), Num: 20})
		case 2:
			c.Post = append(c.Post, Instr{Op: refdec.MOUT, Sym: "label", Sel: "2"})
		default:
			c.Post = append(c.Post, Instr{Op: refdec.MSINK})
		}
	}
	c.Tail = []string{"trunc-sym", "trunc-size", "trunc-int", "trunc-int2", "longint", "opcode", "halfop", "trunc-reload", "trunc-map"}[uniformN(t, 9, "tail")]
	c.TSym = c15Syms[uniformN(t, len(c15Syms), "tsym")]
	if chancePct(t, 30, "input") {
		c.Input = "1"
	}
	return c
}

func (c C15Stateful) tail() []byte {
	s := c.TSym
	switch c.Tail {
	case "trunc-sym":
		return append([]byte{0, byte(refdec.LOAD), byte(len(s) + 2)}, s...)
	case "trunc-size":
		return append([]byte{0, byte(refdec.LOAD), byte(len(s))}, s...) // no size at all
	case "trunc-int":
		return append(append([]byte{0, byte(refdec.LOAD), byte(len(s))}, s...), 2) // length byte 2, no bytes
	case "trunc-int2":
		return append(append([]byte{0, byte(refdec.LOAD), byte(len(s))}, s...), 4, 0, 7) // length byte 4, two bytes
	case "longint":
		return append(append([]byte{0, byte(refdec.LOAD), byte(len(s))}, s...), 5, 1, 2, 3, 4, 5)
	case "opcode":
		return []byte{0x12, 0x34}
	case "halfop":
		return []byte{0}
	case "trunc-reload":
		return append([]byte{0, byte(refdec.RELOAD), byte(len(s) + 1)}, s...)
	case "trunc-map":
		return append([]byte{0, byte(refdec.MAP), byte(len(s) + 3)}, s...)
	}
	return nil
}

func checkC15Stateful(c C15Stateful) (o Outcome) {
	tail := c.tail()
	if tail == nil {
		o.Discard = "unknown-tail"
		return
	}
	for _, in := range append(append([]Instr{}, c.Pre...), c.Post...) {
		switch in.Op {
		case refdec.LOAD, refdec.RELOAD, refdec.MAP, refdec.HALT, refdec.MOUT, refdec.MSINK:
		default:
			o.Discard = "instruction-outside-the-sub-check"
			return
		}
	}
	for _, in := range c.Post {
		if in.Op == refdec.HALT || in.Op == refdec.RELOAD || in.Op == refdec.MAP {
			o.Discard = "post-part-may-end-the-run"
			return
		}
	}
	post, err := refdec.EncodeAll(c.Post)
	if err != nil {
		o.Discard = "unencodable"
		return
	}
	bad := append(post, tail...)
	if _, _, derr := refdec.DecodeAll(bad); derr == nil {
		o.Discard = "tail-is-well-formed"
		return
	}
	calls := map[string]int{}
	postPhase := false // the functions fail in the earlier runs only: a failing LOAD would end the last run before the malformed instruction
	rs := resource.NewMenuResource()
	rs.WithCodeGetter(func(ctx context.Context, sym string) ([]byte, error) { return []byte{0, 7}, nil })
	rs.WithTemplateGetter(func(ctx context.Context, sym string) (string, error) { return "x", nil })
	rs.WithEntryFuncGetter(func(ctx context.Context, sym string) (resource.EntryFunc, error) {
		return func(ctx context.Context, nodeSym string, input []byte) (resource.Result, error) {
			n := calls[sym]
			calls[sym] = n + 1
			for _, f := range c.FailAt[sym] {
				if f == n && !postPhase {
					return resource.Result{}, fmt.Errorf("scripted failure of %s (call %d)", sym, n)
				}
			}
			return resource.Result{Content: fmt.Sprintf("v%d", n)}, nil
		}, nil
	})
	st := state.NewState(16)
	ca := cache.NewCache()
	st.Down("root")
	ca.Push()
	v := vm.NewVm(st, rs, ca, nil)
	ctx := context.Background()
	// the earlier runs: one per HALT-terminated stretch; their outcome does not matter
	var stretch []Instr
	preErrs := 0
	for _, in := range c.Pre {
		stretch = append(stretch, in)
		if in.Op != refdec.HALT {
			continue
		}
		code, _ := refdec.EncodeAll(stretch)
		stretch = nil
		var rerr error
		if p := catchPanic(func() { _, rerr = v.Run(ctx, code) }); p != nil {
			o.Discard = "earlier-run-panics"
			return
		}
		if rerr != nil {
			preErrs++
		}
	}
	if c.Input != "" {
		st.SetInput([]byte(c.Input))
	}
	postPhase = true
	var rerr error
	p := catchPanic(func() { _, rerr = v.Run(ctx, append([]byte{}, bad...)) })
	if p != nil {
		if decoderPanic(p.stack) || isRuntimeBoundsPanic(p) {
			o.Viol = &Violation{Kind: "panic-run", Msg: fmt.Sprintf("Vm.Run panics on %x after earlier runs %v: %s", bad, c.Pre, p.val), Detail: p.stack}
			return
		}
		o.Discard = "semantic-panic"
		return
	}
	if rerr == nil {
		pos, _ := st.Where()
		o.Viol = viol("silent-accept-run", "Vm.Run returns no error on %x (malformed: %s of %s) after the earlier runs %v with failing calls %v; the session is now at %q", bad, c.Tail, c.TSym, c.Pre, c.FailAt, pos)
		return
	}
	cached := false
	if _, err := ca.Get(c.TSym); err == nil {
		cached = true
	}
	o.NonTrivial = cached || preErrs > 0
	if cached {
		o.class("malformed-instruction-names-a-cached-symbol")
	}
	if preErrs > 0 {
		o.class("an-earlier-run-failed")
	}
	o.class("tail:" + c.Tail)
	return
}

var _ = registerReplay("C15", "stateful", checkC15Stateful)

func runC15Stateful(t *testing.T) {
	RunProp(t, "C15", "stateful", pick(3000, 30000), genC15Stateful, checkC15Stateful)
}
