package props

// C01 (page level) and C02 — size bound and pagination of sink content.
//
// The partition oracle never prescribes where page breaks fall: page i must be the exact
// render of the template with the sink placeholder replaced by rows[r:r+k] for exactly one
// k >= 1, 'next' present iff rows remain, 'previous' iff i > 0; r advances by k; the walk
// ends with all rows consumed; indices past the end are errors.

import (
	"encoding/json"
	"fmt"
	"strings"
	"testing"

	"pgregory.net/rapid"

	"verifharness/app"
	"verifharness/refdec"
)

type walkInfo struct {
	pages       int
	rowsPerPage []int
	exactFill   bool
	failAt0     bool
	viol        *Violation
	classes     []string
}

// everyRowFitsAlone: each row fits on a page of its own together with both navigation
// entries (the most a page can need) — then no implementation may refuse the content.
func (c PageCase) everyRowFitsAlone() bool {
	for _, row := range c.rows() {
		if uint32(len(c.expect([]string{row}, true, true))) > c.Size {
			return false
		}
	}
	return true
}

func (c PageCase) hasEmptyRow() bool {
	for _, r := range c.rows() {
		if r == "" {
			return true
		}
	}
	return false
}

// walk renders page 0, 1, ... and applies the partition oracle. sizeOnly: only what C01
// needs (bound + admissible page), not completeness / navigability.
func (c PageCase) walk(sizeOnly bool) (w walkInfo) {
	return c.walkWith(sizeOnly, c.renderAt)
}

// walkWith applies the oracle to pages obtained from render (index -> page).
func (c PageCase) walkWith(sizeOnly bool, render func(idx uint16) (string, error, *panicInfo)) (w walkInfo) {
	fail := func(kind, detail, format string, a ...any) walkInfo {
		w.viol = viol(kind, format, a...)
		w.viol.Detail = detail
		return w
	}
	if !c.paginated() {
		out, err, p := render(0)
		if p != nil {
			w.viol = &Violation{Kind: "panic", Msg: "render panics: " + p.val, Detail: p.stack}
			return
		}
		want := c.expect(nil, false, false)
		if err != nil {
			if c.Size == 0 || uint32(len(want)) <= c.Size {
				return fail("render-fails-though-fits", "", "page of %d bytes fits size %d but Render failed: %v", len(want), c.Size, err)
			}
			w.classes = append(w.classes, "too-big-rejected")
			return
		}
		if c.Size > 0 && uint32(len(out)) > c.Size {
			return fail("oversize-page", "", "page of %d bytes emitted with output size %d: %q", len(out), c.Size, out)
		}
		if out != want {
			return fail("page-altered", "", "emitted %q, the template, values and menu give %q", out, want)
		}
		w.pages = 1
		// a single page has no lateral neighbours
		if _, err, p := render(1); p != nil {
			w.viol = &Violation{Kind: "panic", Msg: "render of index 1 panics: " + p.val, Detail: p.stack}
		} else if err == nil && !sizeOnly {
			return fail("past-end-rendered", "", "index 1 of a single-page node rendered instead of failing")
		}
		return
	}
	rows := c.rows()
	if len(rows) == 0 {
		rows = []string{""}
	}
	r := 0
	maxPages := len(rows) + 3
	for i := 0; i < maxPages; i++ {
		out, err, p := render(uint16(i))
		if p != nil {
			w.viol = &Violation{Kind: "panic", Msg: fmt.Sprintf("render of page %d panics: %s", i, p.val), Detail: p.stack}
			return
		}
		if err != nil {
			if i == 0 {
				w.failAt0 = true
				// The properties demand an error when content cannot fit; they do not demand
				// that everything that could be packed is packed (the implementation's
				// arithmetic is conservative by a few bytes). A refusal is only classified.
				if c.everyRowFitsAlone() {
					w.classes = append(w.classes, "page0-refused-though-each-row-fits-alone")
				} else {
					w.classes = append(w.classes, "content-cannot-fit")
				}
				// ... but then there is no second page either: a page that renders with a
				// 'previous' entry would lead back to one that does not
				if out1, err1, p1 := render(1); !sizeOnly && p1 == nil && err1 == nil && c.Prev != nil {
					return fail("previous-leads-to-failing-page", c.offeredFailReason(rows, 0, 0), "page 0 fails to render (%v) but page 1 renders %q, whose 'previous' entry leads to page 0", err, out1)
				}
				return
			}
			if sizeOnly {
				return
			}
			return fail("offered-page-fails", c.offeredFailReason(rows, r, i), "page %d was offered by 'next' on page %d but fails to render (rows %d.. remain): %v", i, i-1, r, err)
		}
		if uint32(len(out)) > c.Size {
			return fail("oversize-page", "", "page %d has %d bytes, output size is %d: %q", i, len(out), c.Size, out)
		}
		k := 0
		for cand := 1; r+cand <= len(rows); cand++ {
			if out == c.expect(rows[r:r+cand], r+cand < len(rows), i > 0) {
				k = cand
				break
			}
		}
		if k == 0 {
			det := ""
			if c.hasEmptyRow() {
				det = "empty-row"
			}
			return fail("not-a-row-group", det, "page %d is %q: not the template with rows %d..%d+k (k >= 1) and the right navigation entries (next iff rows remain, previous iff not the first page)", i, out, r, r)
		}
		w.pages++
		w.rowsPerPage = append(w.rowsPerPage, k)
		if uint32(len(out)) == c.Size {
			w.exactFill = true
		}
		r += k
		if r == len(rows) {
			if sizeOnly {
				return
			}
			// past the end: errors, never content
			for _, j := range []int{i + 1, i + 2} {
				out, err, p := render(uint16(j))
				if p != nil {
					w.viol = &Violation{Kind: "panic", Msg: fmt.Sprintf("render of page %d (past the last page %d) panics: %s", j, i, p.val), Detail: p.stack}
					return
				}
				if err == nil {
					return fail("past-end-rendered", "", "index %d is past the last page %d but rendered %q", j, i, out)
				}
			}
			return
		}
		if c.Next == nil {
			w.classes = append(w.classes, "no-next-configured")
			return // missing navigation: only the first group is required
		}
	}
	if !sizeOnly {
		return fail("walk-does-not-end", "", "more pages than rows")
	}
	return
}

// offeredFailReason attributes a failing offered page to the shapes of known finding
// F-C02-2: the first remaining row cannot fit a middle page (with both entries) although
// it fits a first or last page, or a browse label resolves to a longer text than its symbol.
func (c PageCase) offeredFailReason(rows []string, r, i int) string {
	longerLabel := false
	for _, b := range []*MItem{c.Next, c.Prev} {
		if b != nil && len(c.label(b.Label)) > len(b.Label) {
			longerLabel = true
		}
	}
	// some row that is still to come fits no page that carries both navigation entries
	// (the packing arithmetic then underflows or schedules it for a middle page anyway)
	for j := r; j < len(rows); j++ {
		if uint32(len(c.expect(rows[j:j+1], true, true))) > c.Size {
			return "row-fits-only-without-both-entries"
		}
	}
	// the room a middle page has for rows (size minus page without sink, minus both
	// entries, minus the implementation's own two bytes of slack) is zero or negative:
	// joinSink's unsigned arithmetic wraps around and puts everything on one page
	base := len(c.expect(nil, false, false))
	nav := 0
	for _, b := range []*MItem{c.Next, c.Prev} {
		if b != nil {
			nav += 1 + len(b.Sel+c.sep()+c.label(b.Label))
		}
	}
	if int(c.Size)-base-nav-2 <= 0 {
		return "row-fits-only-without-both-entries"
	}
	if longerLabel {
		return "browse-label-longer-than-symbol"
	}
	return ""
}

func checkC02(c PageCase) (o Outcome) {
	if !c.paginated() {
		o.Discard = "no-sink"
		return
	}
	if c.hasEmptyRow() && tolerate("F-C02-1") {
		// rows are dropped (known); what remains checkable without knowing which rows a
		// page holds: no index panics; a page that shows the 'next' entry is followed by a
		// page that renders; a page that does not show it is the last (the next index fails)
		o.Tolerated = append(o.Tolerated, "F-C02-1")
		o.class("empty-row:navigation-only")
		nextLine := ""
		if c.Next != nil {
			nextLine = c.Next.Sel + c.sep() + c.label(c.Next.Label)
		}
		offers := func(out string) bool {
			return nextLine != "" && (strings.HasSuffix(out, "\n"+nextLine) || strings.Contains(out, "\n"+nextLine+"\n"))
		}
		prevOffered := false
		for i := 0; i < len(c.rows())+3; i++ {
			out, err, p := c.renderAt(uint16(i))
			if p != nil {
				o.Viol = &Violation{Kind: "panic", Msg: fmt.Sprintf("render of page %d panics: %s", i, p.val), Detail: p.stack}
				return
			}
			if err != nil {
				if prevOffered {
					det := c.offeredFailReason(c.rows(), 0, i)
					if det == "row-fits-only-without-both-entries" && tolerate("F-C02-2") {
						o.Tolerated = append(o.Tolerated, "F-C02-2")
						return
					}
					o.Viol = viol("offered-page-fails", "page %d was offered by 'next' on page %d but fails to render: %v", i, i-1, err)
					o.Viol.Detail = det
				}
				return
			}
			if uint32(len(out)) > c.Size {
				o.Viol = viol("oversize-page", "page %d has %d bytes, output size is %d", i, len(out), c.Size)
				return
			}
			if i > 0 && !prevOffered {
				o.Viol = viol("past-end-rendered", "page %d did not offer 'next' but index %d renders %q", i-1, i, out)
				return
			}
			prevOffered = offers(out)
			if nextLine == "" {
				return
			}
		}
		return
	}
	w := c.walk(false)
	if w.viol != nil && w.viol.Kind == "offered-page-fails" && w.viol.Detail == "row-fits-only-without-both-entries" && tolerate("F-C02-2") {
		o.Tolerated = append(o.Tolerated, "F-C02-2")
		w.viol = nil
	}
	o.Viol = w.viol
	o.Classes = w.classes
	o.NonTrivial = w.pages >= 2
	if w.pages >= 3 {
		o.class("pages>=3")
	}
	if w.exactFill {
		o.class("page-exactly-full")
	}
	if c.MSink {
		o.class("msink")
	}
	for _, b := range []*MItem{c.Next, c.Prev} {
		if b != nil && len(c.label(b.Label)) != len(b.Label) {
			o.class("label-text-length-differs")
			break
		}
	}
	o.class("pages:%d", min(w.pages, 5))
	return
}

func checkC01Page(c PageCase) (o Outcome) {
	if c.hasEmptyRow() && c.paginated() && tolerate("F-C02-1") {
		// empty rows make the admissible-page predicate ambiguous; the size bound itself is
		// still checked below through the raw outputs
		for i := 0; i < 6; i++ {
			out, err, p := c.renderAt(uint16(i))
			if p != nil || err != nil {
				break
			}
			if uint32(len(out)) > c.Size {
				o.Viol = viol("oversize-page", "page %d has %d bytes, output size is %d", i, len(out), c.Size)
				return
			}
		}
		o.class("empty-rows:bound-only")
		return
	}
	w := c.walk(true)
	o.Viol = w.viol
	o.Classes = w.classes
	want := len(c.expect(nil, false, false))
	near := want+8 >= int(c.Size)
	o.NonTrivial = near || w.pages >= 2 || c.Err != ""
	if c.paginated() {
		o.class("with-sink")
	} else {
		o.class("no-sink")
		if want > int(c.Size) {
			o.class("no-sink:too-big")
		}
	}
	if c.Err != "" {
		o.class("error-prefix")
	}
	return
}

func init() {
	knownPredicates["c02-empty-row"] = func(sub string, raw json.RawMessage, v *Violation) bool {
		return v.Kind == "not-a-row-group" && v.Detail == "empty-row"
	}
	knownPredicates["c02-offered-page-fails"] = func(sub string, raw json.RawMessage, v *Violation) bool {
		return v.Kind == "offered-page-fails" && v.Detail == "row-fits-only-without-both-entries"
	}
}

// --- the same oracle through the engine ----------------------------------------------
//
// The page set-up is turned into a one-node application (LOADs of scripted functions,
// MAPs, MOUTs, MNEXT/MPREV, optional MSINK, HALT, INCMP > / < on the browse selectors) and
// the pages are obtained by sending the 'next' selector to a real engine, long-lived or
// engine-per-request.

// addNode adds the page set-up as node name to the application; prefix renames its
// symbols and labels (two page set-ups in one application must not share them), back adds
// a selector that leaves the node upwards.
func (c PageCase) addNode(a *app.App, name, prefix, back string) {
	for k, v := range c.Labels {
		a.Menus[prefix+k] = v
	}
	var code []app.Instr
	for _, v := range c.Vals {
		a.Syms = append(a.Syms, app.Sym{Name: prefix + v.Sym, Results: []app.Result{{Content: v.Content}}})
		code = append(code, app.Instr{Op: refdec.LOAD, Sym: refdec.BS(prefix + v.Sym), Num: uint32(v.Limit)})
	}
	for _, v := range c.Vals {
		code = append(code, app.Instr{Op: refdec.MAP, Sym: refdec.BS(prefix + v.Sym)})
	}
	for _, m := range c.Menu {
		if _, ok := c.Labels[m.Label]; !ok && prefix != "" {
			a.Menus[prefix+m.Label] = m.Label // absent label text: the symbol itself
		}
		code = append(code, app.Instr{Op: refdec.MOUT, Sym: refdec.BS(prefix + m.Label), Sel: refdec.BS(m.Sel)})
	}
	for _, b := range []*MItem{c.Next, c.Prev} {
		if b != nil && prefix != "" {
			if _, ok := c.Labels[b.Label]; !ok {
				a.Menus[prefix+b.Label] = b.Label
			}
		}
	}
	if c.Next != nil {
		code = append(code, app.Instr{Op: refdec.MNEXT, Sym: refdec.BS(prefix + c.Next.Label), Sel: refdec.BS(c.Next.Sel)})
	}
	if c.Prev != nil {
		code = append(code, app.Instr{Op: refdec.MPREV, Sym: refdec.BS(prefix + c.Prev.Label), Sel: refdec.BS(c.Prev.Sel)})
	}
	if c.MSink {
		code = append(code, app.Instr{Op: refdec.MSINK})
	}
	code = append(code, app.Instr{Op: refdec.HALT})
	if c.Next != nil {
		code = append(code, app.Instr{Op: refdec.INCMP, Sym: ">", Sel: refdec.BS(c.Next.Sel)})
	}
	if c.Prev != nil {
		code = append(code, app.Instr{Op: refdec.INCMP, Sym: "<", Sel: refdec.BS(c.Prev.Sel)})
	}
	if back != "" {
		code = append(code, app.Instr{Op: refdec.INCMP, Sym: "_", Sel: refdec.BS(back)})
	}
	code = append(code, app.Instr{Op: refdec.INCMP, Sym: ".", Sel: "*"})
	a.Nodes = append(a.Nodes, app.Node{Name: name, Code: code, Tpl: strings.ReplaceAll(c.Tpl, "{{.", "{{."+prefix)})
}

var catchNode = app.Node{Name: "_catch", Code: []app.Instr{{Op: refdec.HALT}, {Op: refdec.INCMP, Sym: "_", Sel: "*"}}, Tpl: "CATCH"}

func (c PageCase) toApp() *app.App {
	a := &app.App{Menus: map[string]string{}}
	a.Cfg.OutputSize = c.Size
	a.Cfg.MenuSeparator = c.Sep
	c.addNode(a, "root", "", "")
	a.Nodes = append(a.Nodes, catchNode)
	return a
}

// toAppLang: the page set-up as node "main" below a plain root, next to a node that
// switches the session to language nor, in which labels resolve to the given texts.
func (c PageCase) toAppLang(labels map[string]string) *app.App {
	a := &app.App{Menus: map[string]string{}}
	a.Cfg.OutputSize = c.Size
	a.Cfg.MenuSeparator = c.Sep
	// (the top node declares the same browse entries as the paged node — they only show on
	// paged content — so that the browse configuration never changes along the way)
	var browse []app.Instr
	if c.Next != nil {
		browse = append(browse, app.Instr{Op: refdec.MNEXT, Sym: refdec.BS(c.Next.Label), Sel: refdec.BS(c.Next.Sel)})
	}
	if c.Prev != nil {
		browse = append(browse, app.Instr{Op: refdec.MPREV, Sym: refdec.BS(c.Prev.Label), Sel: refdec.BS(c.Prev.Sel)})
	}
	a.Nodes = []app.Node{{Name: "root", Tpl: "top", Code: append(browse, app.Instr{Op: refdec.HALT},
		app.Instr{Op: refdec.INCMP, Sym: "lang", Sel: "l"}, app.Instr{Op: refdec.INCMP, Sym: "main", Sel: "m"}, app.Instr{Op: refdec.INCMP, Sym: ".", Sel: "*"})},
		{Name: "lang", Tpl: "", Code: []app.Instr{{Op: refdec.LOAD, Sym: "setlang", Num: 0}, {Op: refdec.MOVE, Sym: "_"}}}}
	a.Syms = append(a.Syms, app.Sym{Name: "setlang", Results: []app.Result{{Content: "nor", FlagSet: []uint32{7}}}})
	c.addNode(a, "main", "", "bk")
	a.Nodes = append(a.Nodes, catchNode)
	a.Trans = []app.Trans{{Lang: "nor", Menus: labels}}
	return a
}

// toAppAfter: the page set-up as node "main" below a plain root, next to another paged
// node "other" (the set-up before) that the session visits first.
func (c PageCase) toAppAfter(before PageCase) *app.App {
	a := &app.App{Menus: map[string]string{}}
	a.Cfg.OutputSize = c.Size
	a.Cfg.MenuSeparator = c.Sep
	a.Nodes = []app.Node{{Name: "root", Tpl: "top", Code: []app.Instr{{Op: refdec.HALT},
		{Op: refdec.INCMP, Sym: "other", Sel: "o"}, {Op: refdec.INCMP, Sym: "main", Sel: "m"}, {Op: refdec.INCMP, Sym: ".", Sel: "*"}}}}
	before.Sep = c.Sep
	before.addNode(a, "other", "b_", "bk")
	c.addNode(a, "main", "", "bk")
	a.Nodes = append(a.Nodes, catchNode)
	return a
}

type C02Engine struct {
	Page PageCase `json:"page"`
	Mode app.Mode `json:"mode"`
	// Before: another paged node that the same session enters first, browses BeforeNext
	// pages forward and leaves again (what one node's pagination leaves behind in the
	// engine must not reach the next node's)
	Before     *PageCase `json:"before,omitempty"`
	BeforeNext int       `json:"before_next,omitempty"`
	// LangLabels: the session first browses the node in the default language (BeforeNext
	// pages), leaves it, switches to a language in which these label symbols resolve to
	// these texts, and only then does the walk that is judged (with the translated texts)
	LangLabels map[string]string `json:"lang_labels,omitempty"`
	// First: the engine has a first function (run at every start of an engine, i.e. at
	// every request of a persisted session)
	First bool `json:"first,omitempty"`
}

func checkC02Engine(c C02Engine) (o Outcome) {
	pc := c.Page
	if !pc.paginated() || pc.Next == nil || pc.Err != "" {
		o.Discard = "not-walkable"
		return
	}
	if pc.hasEmptyRow() && tolerate("F-C02-1") {
		o.Tolerated = append(o.Tolerated, "F-C02-1")
		return
	}
	var storage app.Storage
	cleanup := func() {}
	if c.Mode.Kind != "long" {
		storage, cleanup = newStorage(c.Mode.Backend)
	}
	defer cleanup()
	theApp := pc.toApp()
	enter := ""
	if c.Before != nil {
		theApp = pc.toAppAfter(*c.Before)
		enter = "m"
	} else if c.LangLabels != nil {
		theApp = pc.toAppLang(c.LangLabels)
		enter = "m"
	}
	if c.First {
		theApp.Cfg.First = &app.First{Content: "first"}
		o.class("with-first-function")
	}
	s := app.NewSession(app.NewShared(theApp), c.Mode, storage)
	if c.Before == nil && c.LangLabels != nil {
		ins := []string{"", "m"}
		for i := 0; i < c.BeforeNext; i++ {
			ins = append(ins, pc.Next.Sel)
		}
		ins = append(ins, "bk", "l")
		var after *app.Snapshot
		for i := 0; i < len(ins)+3; i++ {
			in := "bk"
			if i < len(ins) {
				in = ins[i]
			} else if after != nil && len(after.Path) == 1 {
				break
			}
			st := s.Request([]byte(in))
			after = st.After
			if st.Panic != "" || (!st.Cont && st.ExecErr == "") {
				o.Discard = "visit-before-fails"
				return
			}
		}
		if after == nil || len(after.Path) != 1 || after.Lang != "nor" {
			o.Discard = "language-switch-does-not-return"
			return
		}
		// from here on the labels resolve to the translated texts
		lab := map[string]string{}
		for k, v := range pc.Labels {
			lab[k] = v
		}
		for k, v := range c.LangLabels {
			lab[k] = v
		}
		pc.Labels = lab
		o.class("walk-after-language-switch")
	}
	if c.Before != nil {
		// visit the other node first
		ins := []string{"", "o"}
		for i := 0; i < c.BeforeNext && c.Before.Next != nil; i++ {
			ins = append(ins, c.Before.Next.Sel)
		}
		ins = append(ins, "bk")
		// whatever the other node does with this output size (it may not even render): the
		// session only has to be back at the top afterwards
		var after *app.Snapshot
		for i := 0; i < len(ins)+3; i++ {
			in := "bk"
			if i < len(ins) {
				in = ins[i]
			} else if after != nil && len(after.Path) == 1 {
				break
			}
			st := s.Request([]byte(in))
			after = st.After
			if st.Panic != "" || (!st.Cont && st.ExecErr == "") {
				o.Discard = "visit-before-fails"
				return
			}
		}
		if after == nil || len(after.Path) != 1 {
			o.Discard = "visit-before-does-not-return"
			return
		}
		o.class("visited-other-node-first")
	}
	cur := -1
	var pages []string
	var last app.Step
	// sequential access: index i is reached by sending 'next' i times
	render := func(idx uint16) (string, error, *panicInfo) {
		for cur < int(idx) {
			in := enter
			if cur >= 0 {
				in = pc.Next.Sel
			}
			last = s.Request([]byte(in))
			cur++
			if last.Panic != "" {
				return "", nil, &panicInfo{val: last.Panic, stack: last.Stack}
			}
			if last.ExecErr != "" || last.FlushErr != "" {
				return "", fmt.Errorf("%s%s", last.ExecErr, last.FlushErr), nil
			}
			if last.After != nil && len(last.After.Path) > 0 && last.After.Path[len(last.After.Path)-1] == "_catch" {
				// past the end the engine answers from the catch node: that is the error report
				return "", fmt.Errorf("catch node: %q", last.Out), nil
			}
			pages = append(pages, last.Out)
		}
		if int(idx) < len(pages) {
			return pages[idx], nil, nil
		}
		return "", fmt.Errorf("not reached"), nil
	}
	w := pc.walkWith(false, render)
	if w.viol != nil && w.viol.Kind == "offered-page-fails" && w.viol.Detail == "row-fits-only-without-both-entries" && tolerate("F-C02-2") {
		o.Tolerated = append(o.Tolerated, "F-C02-2")
		w.viol = nil
	}
	o.Viol = w.viol
	// walking back with 'previous' shows the same pages again (a second session: the
	// first one has been sent past the end)
	if o.Viol == nil && pc.Prev != nil && w.pages >= 2 && len(pages) >= w.pages {
		storage2, cleanup2 := app.Storage(nil), func() {}
		if c.Mode.Kind != "long" {
			storage2, cleanup2 = newStorage(c.Mode.Backend)
		}
		defer cleanup2()
		app2 := pc.toApp()
		if c.First {
			app2.Cfg.First = &app.First{Content: "first"}
		}
		s2 := app.NewSession(app.NewShared(app2), c.Mode, storage2)
		ok := true
		for i := 0; i < w.pages && ok; i++ {
			in := ""
			if i > 0 {
				in = pc.Next.Sel
			}
			st := s2.Request([]byte(in))
			ok = st.Panic == "" && st.ExecErr == "" && st.FlushErr == "" && st.Out == pages[i]
		}
		if !ok {
			o.Viol = viol("walk-not-repeatable", "a second session walking the same %d pages forward does not see the same pages", w.pages)
			return
		}
		for i := w.pages - 2; i >= 0; i-- {
			st := s2.Request([]byte(pc.Prev.Sel))
			if st.Panic != "" || st.ExecErr != "" || st.FlushErr != "" {
				o.Viol = viol("walk-back-fails", "going back from page %d to page %d fails: %s%s%s", i+1, i, st.Panic, st.ExecErr, st.FlushErr)
				return
			}
			if st.Out != pages[i] {
				o.Viol = viol("walk-back-differs", "page %d shown on the way back is %q, on the way forward it was %q", i, st.Out, pages[i])
				return
			}
		}
		o.class("walked-back")
	}
	o.NonTrivial = w.pages >= 2
	o.class("engine-pages:%d", min(w.pages, 5))
	o.class("mode:" + c.Mode.Kind)
	return
}

var _ = registerReplay("C02", "engine", checkC02Engine)
var _ = registerReplay("C02", "page", checkC02)
var _ = registerReplay("C01", "page", checkC01Page)

func TestC02(t *testing.T) {
	runKnownExamples(t, "C02")
	RunProp(t, "C02", "page", pick(5000, 80000), func(t *rapid.T) PageCase {
		return genPageCase(t, pageGenOpts{sink: true, emptyRows: chancePct(t, 20, "emptyrows")})
	}, checkC02)
	if t.Failed() {
		return
	}
	RunProp(t, "C02", "engine", pick(1500, 15000), func(t *rapid.T) C02Engine {
		pc := genPageCase(t, pageGenOpts{sink: true})
		pc.Err = ""
		c := C02Engine{Page: pc, Mode: []app.Mode{{Kind: "long"}, {Kind: "persist", Backend: "mem"}}[uniformN(t, 2, "mode")]}
		c.First = chancePct(t, 20, "first")
		switch k := uniformN(t, 20, "variant"); {
		case k < 7:
			b := genPageCase(t, pageGenOpts{sink: true})
			b.Err = ""
			b.Size = pc.Size
			c.Before, c.BeforeNext = &b, uniformN(t, 4, "beforenext")
		case k < 11 && pc.Next != nil:
			// translated label texts of other lengths for the browse entries and some menu labels
			c.LangLabels = map[string]string{}
			syms := []string{"to_next", "to_prev"}
			for _, m := range pc.Menu {
				syms = append(syms, m.Label)
			}
			for _, sym := range syms {
				if chancePct(t, 70, "translated") {
					c.LangLabels[sym] = genRowText(t, rapid.IntRange(1, 20).Draw(t, "trlen"))
				}
			}
			c.BeforeNext = uniformN(t, 3, "beforenext")
		}
		return c
	}, checkC02Engine)
	if t.Failed() {
		return
	}
	runConcC02(t)
}

var _ = strings.Join
