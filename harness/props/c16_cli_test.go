package props

// C16, sub "cli": the assembler tool (dev/asm) as an executable, with and without its flag
// preprocessor (-f flags.csv). The tool's output must be the bytecode of the source as
// written; with the preprocessor, of the source with every flag NAME in a CATCH/CROAK
// signal position replaced by its registered index — and nothing else touched, whatever
// the nodes, symbols and labels are called.

import (
	"bytes"
	"fmt"
	"os"
	"os/exec"
	"path/filepath"
	"strings"
	"testing"

	"git.defalsify.org/vise.git/asm"
	"pgregory.net/rapid"
)

type C16CliLine struct {
	Op   string   `json:"op"`
	Args []string `json:"args,omitempty"` // as written; a flag name where FlagArg says so
	// FlagArg: index in Args of a symbolic flag name (-1: none)
	FlagArg int `json:"flag_arg"`
}

type C16Cli struct {
	Flags map[string]uint32 `json:"flags,omitempty"` // nil: run without the preprocessor
	Lines []C16CliLine      `json:"lines"`
	// CommentAt/CommentLen: line CommentAt (if there is one) carries a trailing comment of
	// CommentLen characters; comments are of any length
	CommentAt  int `json:"comment_at,omitempty"`
	CommentLen int `json:"comment_len,omitempty"`
}

var c16FlagNames = []string{"locked", "haspin", "foo", "bar", "a", "flag_x", "to_foo"}
var c16CliSyms = []string{"foo", "bar", "baz", "locked", "haspin", "a", "x_1", "to_foo", "flag_x"}
var c16CliNodes = append([]string{"_", ".", "^", "_catch"}, c16CliSyms...)
var c16CliSels = []string{"0", "1", "9", "10", "a", "x", "aB", "*"}

func genC16Cli(t *rapid.T) C16Cli {
	var c C16Cli
	if chancePct(t, 70, "preprocessor") {
		c.Flags = map[string]uint32{}
		n := 1 + uniformN(t, 4, "nflags")
		for i := 0; i < n; i++ {
			c.Flags[c16FlagNames[uniformN(t, len(c16FlagNames), "flagname")]] = uint32(8 + uniformN(t, 40, "flagidx"))
		}
	}
	var names []string
	for k := range c.Flags {
		names = append(names, k)
	}
	sortStrings(names)
	sym := func(label string) string { return c16CliSyms[uniformN(t, len(c16CliSyms), label)] }
	node := func(label string) string { return c16CliNodes[uniformN(t, len(c16CliNodes), label)] }
	sel := func(label string) string { return c16CliSels[uniformN(t, len(c16CliSels), label)] }
	// the flag of a signal line: a registered name (with the preprocessor) or a number
	flag := func(l *C16CliLine, pos int) string {
		if len(names) > 0 && chancePct(t, 70, "symbolic") {
			l.FlagArg = pos
			return names[uniformN(t, len(names), "flagref")]
		}
		return fmt.Sprint(8 + uniformN(t, 300, "flagnum"))
	}
	n := 1 + uniformN(t, 8, "nlines")
	for i := 0; i < n; i++ {
		l := C16CliLine{FlagArg: -1}
		switch uniformN(t, 12, "op") {
		case 0, 1, 2:
			l.Op = "CATCH"
			l.Args = []string{node("node"), "", []string{"0", "1"}[uniformN(t, 2, "mode")]}
			l.Args[1] = flag(&l, 1)
		case 3, 4:
			l.Op = "CROAK"
			l.Args = []string{"", []string{"0", "1"}[uniformN(t, 2, "mode")]}
			l.Args[0] = flag(&l, 0)
		case 5:
			l.Op, l.Args = "LOAD", []string{sym("sym"), fmt.Sprint(uniformN(t, 300, "size"))}
		case 6:
			l.Op, l.Args = []string{"MAP", "RELOAD"}[uniformN(t, 2, "which")], []string{sym("sym")}
		case 7:
			l.Op, l.Args = "MOVE", []string{node("node")}
		case 8:
			l.Op, l.Args = "INCMP", []string{node("node"), sel("sel")}
		case 9:
			l.Op, l.Args = "MOUT", []string{sym("label"), sel("sel")}
		case 10:
			l.Op = "HALT"
		default:
			l.Op, l.Args = []string{"MNEXT", "MPREV"}[uniformN(t, 2, "which")], []string{sym("label"), sel("sel")}
		}
		c.Lines = append(c.Lines, l)
	}
	if chancePct(t, 35, "comment") {
		c.CommentAt = uniformN(t, n, "commentat")
		c.CommentLen = []int{1, 50, 4000, 4096, 65000, 65536, 66000, 70000, 131072, 300000}[uniformN(t, 10, "commentlen")]
	}
	// batch menu lines go last
	nb := uniformN(t, 3, "nbatch")
	for i := 0; i < nb; i++ {
		if rapid.Bool().Draw(t, "down") {
			c.Lines = append(c.Lines, C16CliLine{Op: "DOWN", Args: []string{sym("target"), sel("sel"), sym("label")}, FlagArg: -1})
		} else {
			c.Lines = append(c.Lines, C16CliLine{Op: []string{"UP", "NEXT", "PREVIOUS"}[uniformN(t, 3, "batch")], Args: []string{sel("sel"), sym("label")}, FlagArg: -1})
		}
	}
	return c
}

func sortStrings(s []string) {
	for i := 1; i < len(s); i++ {
		for j := i; j > 0 && s[j] < s[j-1]; j-- {
			s[j], s[j-1] = s[j-1], s[j]
		}
	}
}

// source as written, and with the flag names resolved by hand
func (c C16Cli) sources() (written, resolved string) {
	var w, r strings.Builder
	for i, l := range c.Lines {
		wa, ra := append([]string{l.Op}, l.Args...), append([]string{l.Op}, l.Args...)
		if l.FlagArg >= 0 && l.FlagArg < len(l.Args) {
			ra[1+l.FlagArg] = fmt.Sprint(c.Flags[l.Args[l.FlagArg]])
		}
		comment := ""
		if c.CommentLen > 0 && i == c.CommentAt {
			comment = " # " + strings.Repeat("c", c.CommentLen)
		}
		w.WriteString(strings.Join(wa, " ") + comment + "\n")
		r.WriteString(strings.Join(ra, " ") + comment + "\n")
	}
	return w.String(), r.String()
}

func asmBinary() string { return filepath.Join(os.Getenv("VERIF_BIN"), "asmtool") }

func checkC16Cli(c C16Cli) (o Outcome) {
	bin := asmBinary()
	if _, err := os.Stat(bin); err != nil {
		o.Discard = "no-asm-binary"
		return
	}
	for _, l := range c.Lines {
		if l.FlagArg >= len(l.Args) {
			o.Discard = "malformed-case"
			return
		}
		if l.FlagArg >= 0 {
			if _, ok := c.Flags[l.Args[l.FlagArg]]; !ok {
				o.Discard = "unregistered-flag-name"
				return
			}
		}
	}
	written, resolved := c.sources()
	var want bytes.Buffer
	if _, err := asm.Parse(resolved, &want); err != nil {
		o.Discard = "source-rejected-by-the-library"
		o.class("rejected-in-process")
		return
	}
	if s := hasKnownBadSelectorText(resolved); s {
		o.Discard = "known-selector-shape"
		return
	}
	dir, err := os.MkdirTemp(os.Getenv("VERIF_TMP"), "c16cli")
	if err != nil {
		o.Discard = "no-scratch-dir"
		return
	}
	defer os.RemoveAll(dir)
	src := filepath.Join(dir, "node.vis")
	os.WriteFile(src, []byte(written), 0o600)
	args := []string{}
	if c.Flags != nil {
		var csv strings.Builder
		names := []string{}
		for k := range c.Flags {
			names = append(names, k)
		}
		sortStrings(names)
		for _, k := range names {
			fmt.Fprintf(&csv, "flag,%s,%d\n", k, c.Flags[k])
		}
		fp := filepath.Join(dir, "pp.csv")
		os.WriteFile(fp, []byte(csv.String()), 0o600)
		args = append(args, "-f", fp)
	}
	cmd := exec.Command(bin, append(args, src)...)
	var stdout, stderr bytes.Buffer
	cmd.Stdout, cmd.Stderr = &stdout, &stderr
	rerr := cmd.Run()
	if rerr != nil {
		if _, ok := rerr.(*exec.ExitError); !ok {
			o.Discard = "cannot-run-asm"
			return
		}
		o.Viol = viol("cli-rejects-valid", "dev/asm fails on a source the library assembles (flags %v):\n%s\n%s", c.Flags, written, lastLines(stderr.String(), 2))
		return
	}
	if !bytes.Equal(stdout.Bytes(), want.Bytes()) {
		o.Viol = viol("cli-wrong-output", "dev/asm (flags %v) assembles\n%s to %x, the source with the flag names resolved by hand assembles to %x", c.Flags, written, stdout.Bytes(), want.Bytes())
		return
	}
	nsym := 0
	for _, l := range c.Lines {
		if l.FlagArg >= 0 {
			nsym++
		}
	}
	o.NonTrivial = nsym > 0
	if c.Flags != nil {
		o.class("with-preprocessor")
	} else {
		o.class("plain")
	}
	if nsym > 0 {
		o.class("symbolic-flag-lines")
	}
	return
}

func lastLines(s string, n int) string {
	ls := strings.Split(strings.TrimSpace(s), "\n")
	if len(ls) > n {
		ls = ls[len(ls)-n:]
	}
	return strings.Join(ls, " | ")
}

// hasKnownBadSelectorText: known finding F-C16-1 (digit-leading selectors that are not plain
// decimals) — the pool above has none, kept as a guard.
func hasKnownBadSelectorText(src string) bool {
	for _, f := range strings.Fields(src) {
		if knownBadSelector(f) {
			return true
		}
	}
	return false
}

var _ = registerReplay("C16", "cli", checkC16Cli)

func runC16Cli(t *testing.T) {
	RunProp(t, "C16", "cli", pick(150, 1500), genC16Cli, checkC16Cli)
}
