package props

// Page-level render harness shared by C01 and C02: a render.Page is set up the way the
// VM does it for one HALT (fresh Page, Menu and Sizer per rendered index: the engine
// re-executes the node's MAP/MOUT/MNEXT/MPREV lines for every lateral move).

import (
	"context"
	"errors"
	"fmt"
	"strings"

	"git.defalsify.org/vise.git/cache"
	"git.defalsify.org/vise.git/render"
	"git.defalsify.org/vise.git/resource"
	"pgregory.net/rapid"
)

type PVal struct {
	Sym     string `json:"sym"`
	Content string `json:"content"`
	Limit   uint16 `json:"limit"` // 0 = sink
}

type MItem struct {
	Sel   string `json:"sel"`
	Label string `json:"label"`
}

type PageCase struct {
	Size   uint32            `json:"size"`
	Tpl    string            `json:"tpl"`
	Vals   []PVal            `json:"vals,omitempty"`
	Menu   []MItem           `json:"menu,omitempty"`
	MSink  bool              `json:"msink,omitempty"`
	Next   *MItem            `json:"next,omitempty"`
	Prev   *MItem            `json:"prev,omitempty"`
	Labels map[string]string `json:"labels,omitempty"` // label symbol -> text; absent: the symbol itself
	Sep    string            `json:"sep,omitempty"`
	Err    string            `json:"err,omitempty"` // error prefix (WithError)
	MaxIdx int               `json:"max_idx,omitempty"`
}

func (c PageCase) sep() string {
	if c.Sep == "" {
		return ":"
	}
	return c.Sep
}

func (c PageCase) label(sym string) string {
	if t, ok := c.Labels[sym]; ok {
		return t
	}
	return sym
}

func (c PageCase) sink() *PVal {
	for i := range c.Vals {
		if c.Vals[i].Limit == 0 {
			return &c.Vals[i]
		}
	}
	return nil
}

// renderAt sets up a fresh page and renders index idx.
func (c PageCase) renderAt(idx uint16) (out string, err error, p *panicInfo) {
	ctx := context.Background()
	ca := cache.NewCache()
	ca.Push()
	for _, v := range c.Vals {
		if e := ca.Add(v.Sym, v.Content, v.Limit); e != nil {
			return "", fmt.Errorf("harness: cache add: %w", e), nil
		}
	}
	rs := resource.NewMenuResource()
	rs.WithTemplateGetter(func(ctx context.Context, sym string) (string, error) { return c.Tpl, nil })
	rs.WithMenuGetter(func(ctx context.Context, sym string) (string, error) { return c.label(sym), nil })
	mn := render.NewMenu()
	if c.Sep != "" {
		mn = mn.WithSeparator(c.Sep)
	}
	pg := render.NewPage(ca, rs).WithMenu(mn)
	if c.Size > 0 {
		pg = pg.WithSizer(render.NewSizer(c.Size))
	}
	if c.Err != "" {
		pg = pg.WithError(errors.New(c.Err))
	}
	p = catchPanic(func() {
		for _, v := range c.Vals {
			if e := pg.Map(v.Sym); e != nil {
				err = fmt.Errorf("harness: map: %w", e)
				return
			}
		}
		for _, m := range c.Menu {
			mn.Put(m.Sel, m.Label)
		}
		cfg := mn.GetBrowseConfig()
		if c.Next != nil {
			cfg.NextAvailable, cfg.NextSelector, cfg.NextTitle = true, c.Next.Sel, c.Next.Label
		}
		if c.Prev != nil {
			cfg.PreviousAvailable, cfg.PreviousSelector, cfg.PreviousTitle = true, c.Prev.Sel, c.Prev.Label
		}
		mn = mn.WithBrowseConfig(cfg)
		if c.MSink {
			// vm.runMSink
			mcfg := mn.GetBrowseConfig()
			mn = mn.WithSink().WithBrowseConfig(mcfg).WithPages()
		}
		out, err = pg.Render(ctx, "node", idx)
	})
	return
}

// rows of the paginated content.
func (c PageCase) rows() []string {
	if c.MSink {
		var r []string
		for _, m := range c.Menu {
			r = append(r, m.Sel+c.sep()+c.label(m.Label))
		}
		return r
	}
	if s := c.sink(); s != nil {
		return strings.Split(s.Content, "\n")
	}
	return nil
}

// expect computes the exact page for a given group of sink rows and navigation state
// (independent of the implementation: plain string substitution).
func (c PageCase) expect(group []string, hasNext, hasPrev bool) string {
	tpl := c.Tpl
	if c.MSink {
		tpl += "\n{{._menu}}"
	}
	if c.Err != "" {
		if tpl == "" {
			tpl = c.Err
		} else {
			tpl = c.Err + "\n" + tpl
		}
	}
	body := tpl
	for _, v := range c.Vals {
		val := v.Content
		if v.Limit == 0 {
			val = strings.Join(group, "\n")
		}
		body = strings.ReplaceAll(body, "{{."+v.Sym+"}}", val)
	}
	if c.MSink {
		body = strings.ReplaceAll(body, "{{._menu}}", strings.Join(group, "\n"))
	}
	var lines []string
	if !c.MSink {
		for _, m := range c.Menu {
			lines = append(lines, m.Sel+c.sep()+c.label(m.Label))
		}
	}
	if hasNext && c.Next != nil {
		lines = append(lines, c.Next.Sel+c.sep()+c.label(c.Next.Label))
	}
	if hasPrev && c.Prev != nil {
		lines = append(lines, c.Prev.Sel+c.sep()+c.label(c.Prev.Label))
	}
	if len(lines) > 0 {
		return body + "\n" + strings.Join(lines, "\n")
	}
	return body
}

func (c PageCase) paginated() bool { return c.Size > 0 && (c.MSink || c.sink() != nil) }

// --- generator -----------------------------------------------------------------

var pageWords = []string{"a", "be", "sea", "delta", "echoes", "foxtrot", "x", "0123456789", "æøå", "日本語", "é"}

func genRowText(t *rapid.T, n int) string {
	var sb strings.Builder
	for sb.Len() < n {
		sb.WriteString(pageWords[uniformN(t, len(pageWords), "w")])
		if sb.Len() < n {
			sb.WriteByte(' ')
		}
	}
	return sb.String()[:n]
}

type pageGenOpts struct {
	sink      bool // force a sink (C02)
	emptyRows bool // allow empty rows
}

func genPageCase(t *rapid.T, o pageGenOpts) PageCase {
	var c PageCase
	c.Labels = map[string]string{}
	// static template text and non-sink values
	static := []string{"", "hello", "This is", "a longer static text for the page", "line one\nline two"}[uniformN(t, 5, "static")]
	c.Tpl = static
	nvals := uniformN(t, 4, "nvals")
	for i := 0; i < nvals; i++ {
		sym := []string{"foo", "bar", "baz"}[i]
		content := genRowText(t, rapid.IntRange(1, 25).Draw(t, "vallen"))
		if chancePct(t, 6, "ctrl") {
			// a value with a byte the pager uses internally (NUL separates the rows of a page)
			// or that means something to a terminal: values are shown as they are
			at := uniformN(t, len(content)+1, "ctrlat")
			content = content[:at] + []string{"\x00", "\x00", "\r", "\t", "\x1b"}[uniformN(t, 5, "ctrlv")] + content[at:]
		}
		lim := uint16(len(content) + uniformN(t, 10, "limslack"))
		c.Vals = append(c.Vals, PVal{sym, content, lim})
		c.Tpl += []string{" ", "\n", " and "}[uniformN(t, 3, "join")] + "{{." + sym + "}}"
	}
	// menu
	nmenu := uniformN(t, 5, "nmenu")
	for i := 0; i < nmenu; i++ {
		lab := []string{"to_foo", "to_bar", "back", "quit", "m"}[i]
		c.Menu = append(c.Menu, MItem{Sel: []string{"0", "1", "2", "00", "99"}[i], Label: lab})
		if chancePct(t, 50, "labeltext") {
			c.Labels[lab] = genRowText(t, rapid.IntRange(1, 18).Draw(t, "labellen"))
		}
	}
	if chancePct(t, 25, "sep") {
		c.Sep = []string{". ", ")", " - "}[uniformN(t, 3, "sepv")]
	}
	if chancePct(t, 20, "err") {
		c.Err = []string{"invalid input: '1'", "error foo:0", "e"}[uniformN(t, 3, "errv")]
	}
	hasSink := o.sink || chancePct(t, 55, "hassink")
	if hasSink {
		if nmenu >= 2 && chancePct(t, 30, "msink") {
			c.MSink = true
		}
		if chancePct(t, 90, "next") {
			c.Next = &MItem{Sel: []string{"11", "9", "n", "1234"}[uniformN(t, 4, "nextsel")], Label: "to_next"}
			if chancePct(t, 50, "nextlabel") {
				c.Labels["to_next"] = genRowText(t, rapid.IntRange(1, 16).Draw(t, "nextlabellen"))
			}
		}
		if chancePct(t, 85, "prev") {
			c.Prev = &MItem{Sel: []string{"22", "8", "p"}[uniformN(t, 3, "prevsel")], Label: "to_prev"}
			if chancePct(t, 50, "prevlabel") {
				c.Labels["to_prev"] = genRowText(t, rapid.IntRange(1, 16).Draw(t, "prevlabellen"))
			}
		}
	}
	// size: relative to the page without sink content
	base := len(c.expect(nil, false, false))
	if c.MSink {
		base = len(c.expect(nil, false, false))
	}
	navNext, navPrev := 0, 0
	if c.Next != nil {
		navNext = 1 + len(c.Next.Sel+c.sep()+c.label(c.Next.Label))
	}
	if c.Prev != nil {
		navPrev = 1 + len(c.Prev.Sel+c.sep()+c.label(c.Prev.Label))
	}
	if hasSink && !c.MSink {
		c.Tpl += []string{"\n", " ", ""}[uniformN(t, 3, "sinkjoin")] + "{{.sink}}"
		base = len(c.expect(nil, false, false)) // template text grew
	}
	capacity := rapid.IntRange(1, 60).Draw(t, "capacity") // room for sink rows on a middle page
	switch k := uniformN(t, 10, "sizekind"); {
	case !hasSink && k < 6:
		c.Size = uint32(max(1, base+rapid.IntRange(-10, 12).Draw(t, "delta")))
	case !hasSink:
		c.Size = uint32(rapid.IntRange(1, 300).Draw(t, "sizev"))
	case k < 8:
		c.Size = uint32(base + navNext + navPrev + capacity)
	case k < 9:
		c.Size = uint32(max(1, base+rapid.IntRange(-5, 20).Draw(t, "tight")))
	default:
		c.Size = uint32(rapid.IntRange(1, 300).Draw(t, "sizev"))
	}
	if hasSink && !c.MSink {
		// rows: lengths around the capacity of first / middle / last pages
		nrows := rapid.IntRange(1, 14).Draw(t, "nrows")
		if chancePct(t, 10, "manyrows") {
			nrows = rapid.IntRange(15, 40).Draw(t, "nrowsmany")
		}
		var rows []string
		for i := 0; i < nrows; i++ {
			var l int
			switch k := uniformN(t, 10, "rowkind"); {
			case k < 5:
				l = rapid.IntRange(1, max(1, capacity/2)).Draw(t, "rowshort")
			case k < 7:
				l = max(1, capacity+rapid.IntRange(-3, 2).Draw(t, "rowatcap"))
			case k < 8:
				l = max(1, capacity+navPrev+rapid.IntRange(-2, 2).Draw(t, "rowatfirst"))
			case k < 9:
				l = rapid.IntRange(1, 8).Draw(t, "rowtiny")
			default:
				l = rapid.IntRange(1, 70).Draw(t, "rowfree")
			}
			if o.emptyRows && chancePct(t, 12, "emptyrow") {
				l = 0
			}
			row := ""
			if l > 0 {
				row = fmt.Sprintf("%d", i%10) + genRowText(t, l)[:l-1]
			}
			rows = append(rows, row)
		}
		if o.emptyRows && chancePct(t, 40, "trailingempty") {
			rows = append(rows, "") // content that ends in a line break
		}
		giantSink := false
		if uniformN(t, 250, "giantsink") == 0 {
			// sink content of more than 64 KiB, on pages of several hundred bytes: page
			// offsets are not 16-bit quantities either
			giantSink = true
			n := 950 + uniformN(t, 500, "giantrows")
			step := 1 + uniformN(t, 9, "giantstep")
			rows = rows[:0]
			for i := 0; i < n; i++ {
				rows = append(rows, fmt.Sprintf("%d:%s", i, strings.Repeat(string(rune('a'+i%26)), 45+(i*step)%37)))
			}
			c.Size = uint32(base + navNext + navPrev + 500 + uniformN(t, 700, "giantcap"))
		}
		c.Vals = append(c.Vals, PVal{"sink", strings.Join(rows, "\n"), 0})
		// the boundary between one page and two: the output size at which everything fits
		// without browse entries, give or take a byte or a browse entry
		if !giantSink && chancePct(t, 12, "exactfit") {
			whole := len(c.expect(rows, false, false))
			d := []int{0, 0, 1, -1, 2, -2, navNext, -navNext, navNext + 1, navNext - 1, navPrev, navNext + navPrev}[uniformN(t, 12, "fitdelta")]
			c.Size = uint32(max(1, whole+d))
		}
	}
	if c.Size == 0 {
		c.Size = 1
	}
	if chancePct(t, 1, "giant") {
		// a page of a multiple of 64 KiB more than one that would (almost) fit: lengths are
		// not 16-bit quantities
		m := 1 + uniformN(t, 2, "giantm")
		j := uniformN(t, 20, "giantj")
		c.Tpl = strings.Repeat("filler text ", 65536*m/12+1)[:65536*m-j] + c.Tpl
	}
	return c
}
