package props

import (
	"context"

	"git.defalsify.org/vise.git/db"
	"git.defalsify.org/vise.git/db/postgres"

	"verifharness/app"
	"verifharness/pgfake"
)

// pgStorage: one fake server is the storage; every Open creates a new pgDb on a new
// "pool" handle of it.
type pgStorage struct{ srv *pgfake.Server }

func newPgStorage() app.Storage { return &pgStorage{pgfake.NewServer()} }

func (p *pgStorage) Open(ctx context.Context) (db.Db, error) {
	return postgres.NewPgDb().WithConnection(p.srv.Conn()), nil
}
func (p *pgStorage) Name() string { return "pg" }
