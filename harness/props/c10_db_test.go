package props

// C10 — every storage backend behaves as the same keyed map.
//
// A generated operation sequence is applied to a reference keyed map and to each
// backend (memory, filesystem text keys, filesystem binary keys, Postgres driver over
// the in-process fake); verdicts and values are compared after every operation, and the
// verdicts across backends.

import (
	"regexp"
	"bytes"
	"context"
	"encoding/json"
	"fmt"
	"os"
	"sort"
	"strings"
	"testing"

	"git.defalsify.org/vise.git/db"
	fsdb "git.defalsify.org/vise.git/db/fs"
	memdb "git.defalsify.org/vise.git/db/mem"
	"git.defalsify.org/vise.git/db/postgres"
	"git.defalsify.org/vise.git/lang"
	"git.defalsify.org/vise.git/resource"
	"pgregory.net/rapid"

	"verifharness/pgfake"
)

type C10Op struct {
	Kind    string `json:"kind"` // prefix session lang ctxlang lock seal put get dump reopen
	Typ     uint8  `json:"typ,omitempty"`
	Session string `json:"session,omitempty"`
	Lang    string `json:"lang,omitempty"` // "" = none
	Locked  bool   `json:"locked,omitempty"`
	Key     BS     `json:"key,omitempty"`
	Val     BS     `json:"val,omitempty"`
}

type C10Case struct {
	Ops []C10Op `json:"ops"`
}

var dbTypes = []uint8{db.DATATYPE_BIN, db.DATATYPE_MENU, db.DATATYPE_TEMPLATE, db.DATATYPE_STATICLOAD, db.DATATYPE_STATE, db.DATATYPE_USERDATA}
var c10Sessions = []string{"", "a", "b", "alice", "s1"}
var c10Langs = []string{"", "", "nor", "eng", "swa"}
var c10Keys = []string{"foo", "foobar", "fo", "bar", "baz", "x", "xyzzy", "foo_menu", "bar_menu", "a1", "k_1", "key_two", "Pfoo", "Px", "tmp", "a", "alice", "lock", "bak"}
var c10Vals = []string{"", "v", "value one", "x\x00y", "\xff\xfe", "line1\nline2", "{{.a}}", "another value"}

func translatable(typ uint8) bool {
	return typ&(db.DATATYPE_MENU|db.DATATYPE_TEMPLATE|db.DATATYPE_STATICLOAD) > 0
}
func sessioned(typ uint8) bool { return typ > db.DATATYPE_STATICLOAD }

var genC10Op = rapid.Custom(func(t *rapid.T) C10Op {
	var op C10Op
	switch k := uniformN(t, 40, "kind"); {
	case k < 5:
		op.Kind = "prefix"
		op.Typ = dbTypes[uniformN(t, len(dbTypes), "typ")]
	case k < 8:
		op.Kind = "session"
		op.Session = c10Sessions[uniformN(t, len(c10Sessions), "session")]
	case k < 10:
		op.Kind = "lang"
		op.Lang = c10Langs[uniformN(t, len(c10Langs), "lang")]
	case k < 12:
		op.Kind = "ctxlang"
		op.Lang = c10Langs[uniformN(t, len(c10Langs), "lang")]
	case k < 15:
		op.Kind = "lock"
		op.Typ = dbTypes[uniformN(t, 4, "locktyp")]
		if chancePct(t, 15, "multilock") {
			op.Typ |= dbTypes[uniformN(t, 4, "locktyp2")]
		}
		op.Locked = chancePct(t, 35, "locked")
	case k < 16:
		op.Kind = "seal"
	case k < 26:
		op.Kind = "put"
	case k < 35:
		op.Kind = "get"
	case k < 38:
		op.Kind = "dump"
	default:
		op.Kind = "reopen"
		if chancePct(t, 35, "stray") {
			// what a writer that died between creating its scratch file and renaming it
			// leaves behind in a filesystem store (or a dot-file put there by a tool)
			op.Kind = "stray"
			op.Key = BS([]string{".tmp-1234567", ".tmp-1", ".gitkeep", ".tmp-9999999999"}[uniformN(t, 4, "strayname")])
		}
	}
	switch op.Kind {
	case "put", "get", "dump":
		if chancePct(t, 85, "poolkey") {
			op.Key = BS(c10Keys[uniformN(t, len(c10Keys), "key")])
		} else {
			op.Key = BS(rapid.StringMatching(`[a-z][a-zA-Z0-9]{0,9}`).Draw(t, "freekey"))
		}
		if op.Kind == "dump" {
			// a prefix of a pool key (possibly empty)
			op.Key = op.Key[:uniformN(t, len(op.Key)+1, "prefixlen")]
		}
		if op.Kind == "put" {
			if chancePct(t, 80, "poolval") {
				op.Val = BS(c10Vals[uniformN(t, len(c10Vals), "val")])
			} else {
				op.Val = BS(rapid.SliceOfN(rapid.Byte(), 0, 40).Draw(t, "freeval"))
			}
		}
	}
	return op
})

// genC10Dump: listing-focused sequences — one type, several keys with shared prefixes
// (short random keys too, so that stored-name order and key order differ in binary-key
// mode), then listings by prefix.
func genC10Dump(t *rapid.T) C10Case {
	typ := dbTypes[uniformN(t, len(dbTypes), "typ")]
	ops := []C10Op{{Kind: "prefix", Typ: typ}, {Kind: "lock", Typ: safeLock, Locked: false}}
	if chancePct(t, 50, "withsession") {
		ops = append(ops, C10Op{Kind: "session", Session: c10Sessions[1+uniformN(t, len(c10Sessions)-1, "session")]})
	}
	keyGen := rapid.OneOf(rapid.SampledFrom(c10Keys[:12]), rapid.StringMatching(`[a-d][a-d0-3]{0,3}`), rapid.StringMatching(`[a-z][a-zA-Z0-9]{0,5}`))
	n := rapid.IntRange(2, 12).Draw(t, "nputs")
	var keys []string
	for i := 0; i < n; i++ {
		k := keyGen.Draw(t, "key")
		keys = append(keys, k)
		ops = append(ops, C10Op{Kind: "put", Key: BS(k), Val: BS(fmt.Sprintf("v%d", i))})
		if chancePct(t, 10, "othersession") && sessioned(typ) {
			ops = append(ops, C10Op{Kind: "session", Session: c10Sessions[1+uniformN(t, len(c10Sessions)-1, "session2")]})
		}
		if chancePct(t, 8, "othertype") {
			ops = append(ops, C10Op{Kind: "prefix", Typ: dbTypes[uniformN(t, len(dbTypes), "typ2")]}, C10Op{Kind: "put", Key: BS(k), Val: "other"}, C10Op{Kind: "prefix", Typ: typ})
		}
	}
	if chancePct(t, 15, "stray") {
		ops = append(ops, C10Op{Kind: "stray", Key: BS([]string{".tmp-1234567", ".tmp-1", ".gitkeep", "..x"}[uniformN(t, 4, "strayname")])})
	}
	if translatable(typ) && chancePct(t, 25, "translatedsibling") {
		// an entry with a translation, and entries whose keys continue that entry's key with
		// an underscore (the stored name of a translation does so too): listed by that prefix
		k := keys[uniformN(t, len(keys), "trkey")]
		ops = append(ops, C10Op{Kind: "put", Key: BS(k), Val: "dflt"},
			C10Op{Kind: "lang", Lang: []string{"nor", "eng", "swa"}[uniformN(t, 3, "trlang")]}, C10Op{Kind: "put", Key: BS(k), Val: "trans"}, C10Op{Kind: "lang", Lang: ""},
			C10Op{Kind: "put", Key: BS(k + "_about"), Val: "va"}, C10Op{Kind: "put", Key: BS(k + "_terms"), Val: "vt"}, C10Op{Kind: "put", Key: BS(k + "_zz"), Val: "vz"},
			C10Op{Kind: "dump", Key: BS(k + "_")})
	}
	nd := rapid.IntRange(1, 3).Draw(t, "ndumps")
	for i := 0; i < nd; i++ {
		k := keys[uniformN(t, len(keys), "dumpkey")]
		ops = append(ops, C10Op{Kind: "dump", Key: BS(k[:uniformN(t, min(len(k), 2)+1, "plen")])})
		if chancePct(t, 30, "reopen") {
			ops = append(ops, C10Op{Kind: "reopen"})
		}
	}
	return C10Case{Ops: ops}
}

// genC10Lang: translation-focused sequences — one translatable type, one or two keys,
// three values (the empty one among them, so that a translation often equals the default
// entry or is empty), frequent language switches.
func genC10Lang(t *rapid.T) C10Case {
	typ := dbTypes[1+uniformN(t, 3, "typ")]
	ops := []C10Op{{Kind: "prefix", Typ: typ}, {Kind: "lock", Typ: safeLock, Locked: false}}
	keys := []string{"foo", "foo_menu"}[:1+uniformN(t, 2, "nkeys")]
	vals := []string{"", "hello", "good day"}
	langKind := []string{"lang", "lang", "ctxlang"}
	n := 6 + uniformN(t, 25, "nops")
	if chancePct(t, 30, "equaltranslation") {
		// a translation that equals the default entry at the time it is written, after which
		// one of the two changes: they are two entries, not one
		k := BS(keys[uniformN(t, len(keys), "eqkey")])
		l := []string{"nor", "eng"}[uniformN(t, 2, "eqlang")]
		v := BS(vals[uniformN(t, 3, "eqval")])
		v2 := BS(vals[uniformN(t, 3, "eqval2")])
		first, second := "", l
		if chancePct(t, 50, "eqorder") {
			first, second = l, ""
		}
		ops = append(ops, C10Op{Kind: "lang", Lang: first}, C10Op{Kind: "put", Key: k, Val: v},
			C10Op{Kind: "lang", Lang: second}, C10Op{Kind: "put", Key: k, Val: v},
			C10Op{Kind: "lang", Lang: []string{first, second}[uniformN(t, 2, "eqchange")]}, C10Op{Kind: "put", Key: k, Val: v2},
			C10Op{Kind: "lang", Lang: l}, C10Op{Kind: "get", Key: k}, C10Op{Kind: "lang", Lang: ""}, C10Op{Kind: "get", Key: k})
	}
	for i := 0; i < n; i++ {
		switch k := uniformN(t, 22, "kind"); {
		case k < 7:
			ops = append(ops, C10Op{Kind: langKind[uniformN(t, 3, "langkind")], Lang: []string{"", "nor", "eng"}[uniformN(t, 3, "lang")]})
		case k < 13:
			ops = append(ops, C10Op{Kind: "put", Key: BS(keys[uniformN(t, len(keys), "key")]), Val: BS(vals[uniformN(t, 3, "val")])})
		case k < 19:
			ops = append(ops, C10Op{Kind: "get", Key: BS(keys[uniformN(t, len(keys), "key")])})
		case k < 21:
			ops = append(ops, C10Op{Kind: "dump", Key: BS([]string{"", "f", "foo"}[uniformN(t, 3, "dumpprefix")])})
		default:
			ops = append(ops, C10Op{Kind: "reopen"})
		}
	}
	return C10Case{Ops: ops}
}

// genC10Scratch: an entry whose stored name is what a writer might use as scratch name for
// another entry (session-scoped names are <session>.<key>: key "tmp" of session S next to key
// S of the empty session, and the like), written before and after that other entry.
func genC10Scratch(t *rapid.T) C10Case {
	typ := []uint8{db.DATATYPE_USERDATA, db.DATATYPE_STATE}[uniformN(t, 2, "typ")]
	sess := []string{"a", "alice", "s1"}[uniformN(t, 3, "session")]
	suffix := []string{"tmp", "lock", "bak", "new", "old", "swp", "part", "1"}[uniformN(t, 8, "suffix")]
	ops := []C10Op{{Kind: "prefix", Typ: typ}, {Kind: "lock", Typ: safeLock, Locked: false}}
	a := []C10Op{{Kind: "session", Session: sess}, {Kind: "put", Key: BS(suffix), Val: "scratch-named"}}
	b := []C10Op{{Kind: "session", Session: ""}, {Kind: "put", Key: BS(sess), Val: "plain"}}
	if chancePct(t, 30, "order") {
		a, b = b, a
	}
	ops = append(ops, a...)
	ops = append(ops, b...)
	if chancePct(t, 50, "rewrite") {
		ops = append(ops, C10Op{Kind: "session", Session: ""}, C10Op{Kind: "put", Key: BS(sess), Val: "plain again"})
	}
	ops = append(ops, C10Op{Kind: "session", Session: sess}, C10Op{Kind: "get", Key: BS(suffix)}, C10Op{Kind: "dump", Key: ""},
		C10Op{Kind: "session", Session: ""}, C10Op{Kind: "get", Key: BS(sess)})
	return C10Case{Ops: ops}
}

// genC10Resource: static load entries read through resource.DbResource, which looks a symbol
// up under its own name and only then under <name>.txt; both exist, in the default language
// and in translations.
func genC10Resource(t *rapid.T) C10Case {
	ops := []C10Op{{Kind: "prefix", Typ: db.DATATYPE_STATICLOAD}, {Kind: "lock", Typ: safeLock, Locked: false}}
	keys := []string{"foo", "bar", "baz"}
	n := 3 + uniformN(t, 8, "nputs")
	for i := 0; i < n; i++ {
		k := keys[uniformN(t, 3, "key")]
		if chancePct(t, 50, "txt") {
			k += ".txt"
		}
		if chancePct(t, 30, "lang") {
			ops = append(ops, C10Op{Kind: "lang", Lang: []string{"", "nor", "eng"}[uniformN(t, 3, "langv")]})
		}
		ops = append(ops, C10Op{Kind: "put", Key: BS(k), Val: BS(fmt.Sprintf("%s#%d", k, i))})
	}
	ops = append(ops, C10Op{Kind: "lang", Lang: ""}, C10Op{Kind: "lock", Typ: safeLock, Locked: true})
	for i := 0; i < 4; i++ {
		if chancePct(t, 40, "ctxlang") {
			ops = append(ops, C10Op{Kind: "ctxlang", Lang: []string{"", "nor", "eng"}[uniformN(t, 3, "ctxlangv")]})
		}
		ops = append(ops, C10Op{Kind: "rget", Key: BS(keys[uniformN(t, 3, "rkey")])})
	}
	return C10Case{Ops: ops}
}

func genC10(t *rapid.T) C10Case {
	switch k := uniformN(t, 20, "focus"); {
	case k == 19:
		return genC10Resource(t)
	case k < 7:
		return genC10Dump(t)
	case k < 11:
		return genC10Lang(t)
	case k < 12:
		return genC10Scratch(t)
	}
	ops := genSlice(t, genC10Op, 1, 40, "ops")
	// start in a writable, typed state most of the time
	if chancePct(t, 85, "preamble") {
		pre := []C10Op{{Kind: "prefix", Typ: dbTypes[uniformN(t, len(dbTypes), "pretyp")]}}
		if chancePct(t, 70, "unlock") {
			pre = append(pre, C10Op{Kind: "lock", Typ: db.DATATYPE_BIN | db.DATATYPE_MENU | db.DATATYPE_TEMPLATE | db.DATATYPE_STATICLOAD, Locked: false})
		}
		ops = append(pre, ops...)
	}
	return C10Case{Ops: ops}
}

func keyWellFormed(k string) bool {
	// (static load entries may carry the conventional .txt suffix)
	k = strings.TrimSuffix(k, ".txt")
	if k == "" {
		return false
	}
	for i := 0; i < len(k); i++ {
		c := k[i]
		ok := c >= 'a' && c <= 'z' || c >= 'A' && c <= 'Z' || (i > 0 && (c >= '0' && c <= '9' || c == '_'))
		if !ok {
			return false
		}
	}
	// not ending in a language suffix
	if len(k) >= 4 && k[len(k)-4] == '_' {
		tail := k[len(k)-3:]
		if strings.ToLower(tail) == tail && strings.Trim(tail, "abcdefghijklmnopqrstuvwxyz") == "" {
			return false
		}
	}
	return true
}

// --- reference keyed map -------------------------------------------------------

type refKey struct {
	typ     uint8
	session string
	key     string
	lang    string
}

type refDb struct {
	m       map[refKey][]byte
	pfx     uint8
	session string
	lang    string // SetLanguage
	ctxLang string
	lock    uint8
	sealed  bool
}

const safeLock = db.DATATYPE_BIN | db.DATATYPE_MENU | db.DATATYPE_TEMPLATE | db.DATATYPE_STATICLOAD

func newRefDb() *refDb { return &refDb{m: map[refKey][]byte{}, lock: safeLock} }

func (r *refDb) effLang() string {
	if !translatable(r.pfx) {
		return ""
	}
	if r.lang != "" {
		return r.lang
	}
	return r.ctxLang
}

func (r *refDb) rk(key string, l string) refKey {
	k := refKey{typ: r.pfx, key: key, lang: l}
	if sessioned(r.pfx) {
		k.session = r.session
	}
	return k
}

// --- backends -----------------------------------------------------------------

type c10Backend struct {
	name    string
	open    func() db.Db
	d       db.Db
	cleanup func()
	// dir: the directory of a filesystem backend
	dir string
	// handle-local settings have to be re-applied after a reopen
}

func newC10Backends() []*c10Backend {
	ctx := context.Background()
	var out []*c10Backend
	{
		d := memdb.NewMemDb()
		d.Connect(ctx, "")
		out = append(out, &c10Backend{name: "mem", open: func() db.Db { return d }, cleanup: func() {}})
	}
	for _, bin := range []bool{false, true} {
		dir := workDir()
		bin := bin
		name := "fs"
		if bin {
			name = "fsbin"
		}
		out = append(out, &c10Backend{name: name, dir: dir, cleanup: func() { os.RemoveAll(dir) }, open: func() db.Db {
			d := fsdb.NewFsDb()
			if bin {
				d = d.WithBinary()
			}
			if err := d.Connect(ctx, dir); err != nil {
				panic(err)
			}
			return d
		}})
	}
	{
		srv := pgfake.NewServer()
		out = append(out, &c10Backend{name: "pg", cleanup: func() {}, open: func() db.Db {
			return postgres.NewPgDb().WithConnection(srv.Conn())
		}})
	}
	for _, b := range out {
		b.d = b.open()
	}
	return out
}

func langPtr(code string) *lang.Language {
	if code == "" {
		return nil
	}
	l, err := lang.LanguageFromCode(code)
	if err != nil {
		panic(err)
	}
	return &l
}

func ctxWithLang(code string) context.Context {
	ctx := context.Background()
	if code != "" {
		ctx = context.WithValue(ctx, "Language", *langPtr(code))
	}
	return ctx
}

type kv struct{ k, v string }

// langLikeSuffix: a key that ends the way the stored name of a translation does
var langLikeSuffix = regexp.MustCompile(`_[a-z]{2,3}$`)

// dumpAllBetween: like dumpAll, with between() called after every entry read.
func dumpAllBetween(ctx context.Context, d db.Db, prefix []byte, between func()) ([]kv, error) {
	dmp, err := d.Dump(ctx, prefix)
	if err != nil {
		return nil, err
	}
	var out []kv
	for i := 0; i < 10000; i++ {
		k, v := dmp.Next(ctx)
		if k == nil {
			break
		}
		out = append(out, kv{string(k), string(v)})
		between()
	}
	dmp.Close()
	sort.Slice(out, func(i, j int) bool { return out[i].k < out[j].k || (out[i].k == out[j].k && out[i].v < out[j].v) })
	return out, nil
}

func dumpAll(ctx context.Context, d db.Db, prefix []byte) ([]kv, error) {
	dmp, err := d.Dump(ctx, prefix)
	if err != nil {
		return nil, err
	}
	var out []kv
	for i := 0; i < 10000; i++ {
		k, v := dmp.Next(ctx)
		if k == nil {
			break
		}
		out = append(out, kv{string(k), string(v)})
	}
	dmp.Close()
	sort.Slice(out, func(i, j int) bool { return out[i].k < out[j].k || (out[i].k == out[j].k && out[i].v < out[j].v) })
	return out, nil
}

type c10Verdict struct {
	ok       bool
	notFound bool
}

func checkC10(c C10Case) (o Outcome) {
	ref := newRefDb()
	bks := newC10Backends()
	defer func() {
		for _, b := range bks {
			b.cleanup()
		}
	}()
	switched, refusedPut, bigDump := false, false, false
	lastPutCtx := ""
	for i, op := range c.Ops {
		at := func(b *c10Backend, kind, format string, a ...any) Outcome {
			o.Viol = viol(kind, "op %d %s on backend %s: %s", i, opString(op), b.name, fmt.Sprintf(format, a...))
			return o
		}
		switch op.Kind {
		case "prefix":
			ref.pfx = op.Typ
			for _, b := range bks {
				b.d.SetPrefix(op.Typ)
			}
		case "session":
			ref.session = op.Session
			for _, b := range bks {
				b.d.SetSession(op.Session)
			}
		case "lang":
			ref.lang = op.Lang
			for _, b := range bks {
				b.d.SetLanguage(langPtr(op.Lang))
			}
		case "ctxlang":
			ref.ctxLang = op.Lang
		case "lock":
			for _, b := range bks {
				err := b.d.SetLock(op.Typ, op.Locked)
				if ref.sealed && err == nil {
					return at(b, "seal-undone", "SetLock succeeded on a sealed store")
				}
				if !ref.sealed && err != nil {
					return at(b, "lock-error", "SetLock failed: %v", err)
				}
			}
			if !ref.sealed {
				if op.Locked {
					ref.lock |= op.Typ
				} else {
					ref.lock &^= op.Typ
				}
			}
		case "seal":
			for _, b := range bks {
				err := b.d.SetLock(0, true)
				if ref.sealed && err == nil {
					return at(b, "seal-undone", "sealing twice succeeded")
				}
				if !ref.sealed && err != nil {
					return at(b, "lock-error", "sealing failed: %v", err)
				}
			}
			if !ref.sealed {
				ref.lock |= safeLock
				ref.sealed = true
			}
		case "stray":
			for _, b := range bks {
				if b.dir != "" {
					if err := os.WriteFile(b.dir+"/"+string(op.Key), []byte("part"), 0600); err != nil {
						return at(b, "harness", "cannot create the stray file: %v", err)
					}
				}
			}
			o.class("stray-scratch-file")
		case "reopen":
			// a new handle on the same storage; handle-local settings are re-applied
			for _, b := range bks {
				if b.name == "mem" {
					continue // the memdb object is the storage
				}
				b.d = b.open()
				b.d.SetPrefix(ref.pfx)
				b.d.SetSession(ref.session)
				b.d.SetLanguage(langPtr(ref.lang))
				// locks are handle state (default-locked): bring the new handle to the same lock state
				for _, typ := range dbTypes[:4] {
					if err := b.d.SetLock(typ, ref.lock&typ != 0); err != nil {
						return at(b, "lock-error", "SetLock on a fresh handle failed: %v", err)
					}
				}
				if ref.sealed {
					if err := b.d.SetLock(0, true); err != nil {
						return at(b, "lock-error", "sealing a fresh handle failed: %v", err)
					}
				}
			}
		case "put":
			key := string(op.Key)
			if !keyWellFormed(key) {
				continue
			}
			ctx := ctxWithLang(ref.ctxLang)
			wantOK := ref.pfx != 0 && ref.pfx&ref.lock == 0
			var verdicts []bool
			for _, b := range bks {
				// the caller's buffers are the caller's: it goes on to use them for something else
				kbuf, vbuf := []byte(key), append([]byte{}, op.Val...)
				err := b.d.Put(ctx, kbuf, vbuf)
				for i := range kbuf {
					kbuf[i] = '~'
				}
				for i := range vbuf {
					vbuf[i] ^= 0x5a
				}
				verdicts = append(verdicts, err == nil)
				if wantOK && err != nil {
					return at(b, "put-refused", "Put failed (%v) although type %d is unlocked", err, ref.pfx)
				}
				if !wantOK && err == nil {
					return at(b, "put-accepted", "Put succeeded although type %d is locked (lock mask %d) or unset", ref.pfx, ref.lock)
				}
			}
			if wantOK {
				ref.m[ref.rk(key, ref.effLang())] = append([]byte{}, op.Val...)
				lastPutCtx = fmt.Sprintf("%s/%s", ref.session, ref.effLang())
			} else {
				refusedPut = true
			}
		case "get":
			key := string(op.Key)
			if !keyWellFormed(key) {
				continue
			}
			if lastPutCtx != "" && lastPutCtx != fmt.Sprintf("%s/%s", ref.session, ref.effLang()) {
				switched = true
			}
			ctx := ctxWithLang(ref.ctxLang)
			var want []byte
			found := false
			if ref.pfx != 0 {
				if l := ref.effLang(); l != "" {
					want, found = ref.m[ref.rk(key, l)]
				}
				if !found {
					want, found = ref.m[ref.rk(key, "")]
				}
			}
			for _, b := range bks {
				got, err := b.d.Get(ctx, []byte(key))
				switch {
				case ref.pfx == 0:
					if err == nil {
						return at(b, "get-untyped", "Get without a data type returned %q", got)
					}
				case found:
					if err != nil {
						return at(b, "get-lost", "Get failed (%v), the latest successful write stored %q", err, want)
					}
					if !bytes.Equal(got, want) {
						return at(b, "get-wrong", "Get = %q, the latest successful write to this type/session/language stored %q", got, want)
					}
					// ... and what a read returned is the reader's: changing it changes nothing stored
					for i := range got {
						got[i] ^= 0x5a
					}
				default:
					if err == nil {
						alias := aliasedByLegacyName(b, ref, key)
						if alias && tolerate("F-C10-1") {
							o.Tolerated = append(o.Tolerated, "F-C10-1")
							continue
						}
						out := at(b, "get-ghost", "Get returned %q for a key never written to this type/session/language", got)
						if alias {
							out.Viol.Detail = "legacy-alias"
						}
						return out
					}
					if !db.IsNotFound(err) {
						return at(b, "get-notfound-unrecognisable", "Get of a missing key failed with %q, which db.IsNotFound does not recognise", err)
					}
				}
			}
		case "rget":
			// a static load symbol read through resource.DbResource (which needs a handle
			// with the resource types locked, and selects the data type itself)
			key := string(op.Key)
			if ref.lock&safeLock != safeLock || !keyWellFormed(key) {
				continue
			}
			ctx := ctxWithLang(ref.ctxLang)
			ref.pfx = db.DATATYPE_STATICLOAD
			lookup := func(k string) ([]byte, bool) {
				if l := ref.effLang(); l != "" {
					if v, ok := ref.m[ref.rk(k, l)]; ok {
						return v, true
					}
				}
				v, ok := ref.m[ref.rk(k, "")]
				return v, ok
			}
			want, found := lookup(key)
			if !found {
				want, found = lookup(key + ".txt")
			}
			for _, b := range bks {
				rs := resource.NewDbResource(b.d).With(db.DATATYPE_STATICLOAD)
				var got string
				fn, err := rs.FuncFor(ctx, key)
				if err == nil {
					var res resource.Result
					res, err = fn(ctx, key, nil)
					got = res.Content
				}
				switch {
				case found && err != nil:
					return at(b, "resource-get-lost", "DbResource finds no static load %q (%v), the store holds %q for it", key, err, want)
				case found && got != string(want):
					return at(b, "resource-get-wrong", "DbResource reads static load %q as %q, the entry of that name (or, without one, of %s.txt) holds %q", key, got, key, want)
				case !found && err == nil:
					return at(b, "resource-get-ghost", "DbResource reads static load %q as %q, no such entry was written", key, got)
				}
			}
			o.class("read-through-DbResource")
		case "dump":
			prefix := string(op.Key)
			ctx := ctxWithLang(ref.ctxLang)
			if ref.pfx == 0 {
				continue
			}
			var want, wantDefault []kv
			hasTranslated := false
			otherSessions := false
			for k, v := range ref.m {
				if k.typ != ref.pfx {
					continue
				}
				if sessioned(ref.pfx) && k.session != ref.session {
					otherSessions = true
					continue
				}
				if k.lang != "" {
					hasTranslated = true
				}
				if strings.HasPrefix(k.key, prefix) {
					want = append(want, kv{k.key, string(v)})
					if k.lang == "" {
						wantDefault = append(wantDefault, kv{k.key, string(v)})
					}
				}
			}
			// (only where every translation of this type and session sits next to a default
			// entry of the same key: a translation alone is listed through a failing read)
			translationsHaveDefaults := true
			for k := range ref.m {
				if k.typ == ref.pfx && k.lang != "" {
					d := k
					d.lang = ""
					if _, ok := ref.m[d]; !ok {
						translationsHaveDefaults = false
					}
				}
			}
			sort.Slice(want, func(i, j int) bool { return want[i].k < want[j].k || (want[i].k == want[j].k && want[i].v < want[j].v) })
			if len(want) >= 2 {
				bigDump = true
			}
			for _, b := range bks {
				if b.name != "fs" && b.name != "fsbin" {
					continue // listing is implemented on the filesystem backend
				}
				if hasTranslated && ref.effLang() == "" && translationsHaveDefaults {
					// translated entries exist, the handle reads the default language: what a
					// translation is listed as is not specified, but every default-language entry
					// with the prefix is a stored key with that prefix and has to be there
					got, err := dumpAll(ctx, b.d, []byte(prefix))
					o.class("dump-with-translations:defaults-required")
					if err == nil {
						for _, w := range wantDefault {
							if langLikeSuffix.MatchString(w.k) {
								continue
							}
							found := false
							for _, g := range got {
								if g.k == w.k && g.v == w.v {
									found = true
								}
							}
							if !found {
								return at(b, "dump-misses-default-entry", "Dump(%q) listed %q, which lacks the stored default-language entry %q=%q", prefix, got, w.k, w.v)
							}
						}
					}
					continue
				}
				if hasTranslated || ref.effLang() != "" {
					// what "the stored keys" are for translated entries is not specified: the
					// listing is made and not looked at - the caller's type, session and language
					// are still what the operations after it work under
					o.class("dump-unchecked:translated-entries")
					dumpAll(ctx, b.d, []byte(prefix))
					continue
				}
				emptySessionSeesAll := sessioned(ref.pfx) && ref.session == "" && otherSessions
				if emptySessionSeesAll && tolerate("F-C10-2") {
					o.Tolerated = append(o.Tolerated, "F-C10-2")
					continue
				}
				got, err := dumpAll(ctx, b.d, []byte(prefix))
				if err != nil {
					if len(want) == 0 {
						continue // nothing to list: an error (not found) is fine
					}
					return at(b, "dump-error", "Dump failed (%v), %d entries match", err, len(want))
				}
				if fmt.Sprint(got) != fmt.Sprint(want) {
					out := at(b, "dump-wrong", "Dump(%q) listed %q, stored entries with that prefix: %q", prefix, got, want)
					if emptySessionSeesAll {
						out.Viol.Detail = "empty-session-lists-other-sessions"
					}
					return out
				}
			}
		}
	}
	o.NonTrivial = switched || refusedPut || bigDump
	if switched {
		o.class("get-after-context-switch")
	}
	if refusedPut {
		o.class("refused-put")
	}
	if bigDump {
		o.class("dump>=2")
	}
	return
}

// aliasedByLegacyName: the fs backend also tries file names without the type byte
// ("legacy" names); F-C11-3. A read of key K may then return the file of another
// type/session whose stored name equals K (or K.bin for bytecode).
func aliasedByLegacyName(b *c10Backend, ref *refDb, key string) bool {
	if b.name != "fs" {
		return false
	}
	names := map[string]bool{}
	for k := range ref.m {
		n := string([]byte{k.typ + 0x30})
		if sessioned(k.typ) && k.session != "" {
			n += k.session + "."
		}
		n += k.key
		if k.lang != "" {
			n += "_" + k.lang
		}
		names[n] = true
	}
	cands := []string{key}
	if l := ref.effLang(); l != "" {
		cands = append(cands, key+"_"+l)
	}
	for _, cnd := range cands {
		if sessioned(ref.pfx) && ref.session != "" {
			cnd = ref.session + "." + cnd
		}
		if ref.pfx == db.DATATYPE_BIN {
			cnd += ".bin"
		}
		if names[cnd] {
			return true
		}
	}
	return false
}

func opString(op C10Op) string {
	b, _ := json.Marshal(op)
	return string(b)
}

func init() {
	// F-C10-1 / F-C11-3: the check computes from its reference map whether the missing
	// key's legacy file name (no type byte) equals the stored name of another entry
	knownPredicates["db-fs-legacy-name-alias"] = func(sub string, raw json.RawMessage, v *Violation) bool {
		return v.Kind == "get-ghost" && v.Detail == "legacy-alias"
	}
	// F-C10-2: listing under the empty session id returns every session's entries
	knownPredicates["db-fs-empty-session-lists-all"] = func(sub string, raw json.RawMessage, v *Violation) bool {
		return v.Kind == "dump-wrong" && v.Detail == "empty-session-lists-other-sessions"
	}
}

var _ = registerReplay("C10", "ops", checkC10)

func TestC10(t *testing.T) {
	runKnownExamples(t, "C10")
	RunProp(t, "C10", "ops", pick(1500, 15000), genC10, checkC10)
	if t.Failed() {
		return
	}
	runC10Fault(t)
}
