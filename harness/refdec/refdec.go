// Package refdec is an independent, strict codec for vise bytecode, written from
// doc/texinfo/instructions.texi and the format comments in vm/vm.go. It shares no
// code with vm/ or asm/ and serves as the oracle for C14, C15, C16 and as the
// encoder for generated applications.
//
// Format: an instruction is a 2-byte big-endian opcode (1..12) followed by its
// arguments. string = 1 length byte (1..255) + that many bytes. integer = 1 length
// byte (0..4) + that many bytes, big-endian (canonical: minimal length, 0 -> 01 00).
// matchmode = 1 byte (0 = false, else true).
package refdec

import (
	"encoding/hex"
	"encoding/json"
	"errors"
	"fmt"
	"unicode/utf8"
)

const (
	NOOP   = 0
	CATCH  = 1
	CROAK  = 2
	LOAD   = 3
	RELOAD = 4
	MAP    = 5
	MOVE   = 6
	HALT   = 7
	INCMP  = 8
	MSINK  = 9
	MOUT   = 10
	MNEXT  = 11
	MPREV  = 12
)

var Names = map[uint16]string{
	NOOP: "NOOP", CATCH: "CATCH", CROAK: "CROAK", LOAD: "LOAD", RELOAD: "RELOAD", MAP: "MAP", MOVE: "MOVE",
	HALT: "HALT", INCMP: "INCMP", MSINK: "MSINK", MOUT: "MOUT", MNEXT: "MNEXT", MPREV: "MPREV",
}

var Codes = func() map[string]uint16 {
	m := map[string]uint16{}
	for k, v := range Names {
		m[v] = k
	}
	return m
}()

// BS is a byte string that survives JSON (invalid UTF-8 / control bytes go as hex).
type BS string

func (b BS) MarshalJSON() ([]byte, error) {
	s := string(b)
	plain := utf8.ValidString(s)
	if plain {
		for _, r := range s {
			if r < 0x20 || r == 0x7f || r == utf8.RuneError {
				plain = false
				break
			}
		}
	}
	if plain {
		return json.Marshal(s)
	}
	return json.Marshal(map[string]string{"hex": hex.EncodeToString([]byte(s))})
}

func (b *BS) UnmarshalJSON(raw []byte) error {
	var s string
	if err := json.Unmarshal(raw, &s); err == nil {
		*b = BS(s)
		return nil
	}
	var m map[string]string
	if err := json.Unmarshal(raw, &m); err != nil {
		return err
	}
	d, err := hex.DecodeString(m["hex"])
	if err != nil {
		return err
	}
	*b = BS(d)
	return nil
}

// Instr is one decoded instruction. Which fields are meaningful depends on Op:
//
//	CATCH  Sym(node) Num(signal) Mode      CROAK Num(signal) Mode
//	LOAD   Sym Num(size)                   RELOAD/MAP/MOVE Sym
//	INCMP  Sym(node) Sel(selector)         MOUT/MNEXT/MPREV Sym(label) Sel(selector)
//	HALT/MSINK none
type Instr struct {
	Op   uint16 `json:"op"`
	Sym  BS     `json:"sym,omitempty"`
	Sel  BS     `json:"sel,omitempty"`
	Num  uint32 `json:"num,omitempty"`
	Mode bool   `json:"mode,omitempty"`
}

func (i Instr) String() string {
	n := Names[i.Op]
	switch i.Op {
	case CATCH:
		return fmt.Sprintf("%s %q %d %v", n, string(i.Sym), i.Num, i.Mode)
	case CROAK:
		return fmt.Sprintf("%s %d %v", n, i.Num, i.Mode)
	case LOAD:
		return fmt.Sprintf("%s %q %d", n, string(i.Sym), i.Num)
	case RELOAD, MAP, MOVE:
		return fmt.Sprintf("%s %q", n, string(i.Sym))
	case INCMP, MOUT, MNEXT, MPREV:
		return fmt.Sprintf("%s %q %q", n, string(i.Sym), string(i.Sel))
	}
	return n
}

// Shape of the arguments of an opcode: s = string, i = integer, m = matchmode.
func Shape(op uint16) string {
	switch op {
	case CATCH:
		return "sim"
	case CROAK:
		return "im"
	case LOAD:
		return "si"
	case RELOAD, MAP, MOVE:
		return "s"
	case INCMP, MOUT, MNEXT, MPREV:
		return "ss"
	}
	return ""
}

// EncodeInt gives the canonical (minimal) integer encoding.
func EncodeInt(n uint32) []byte {
	switch {
	case n < 1<<8:
		return []byte{1, byte(n)}
	case n < 1<<16:
		return []byte{2, byte(n >> 8), byte(n)}
	case n < 1<<24:
		return []byte{3, byte(n >> 16), byte(n >> 8), byte(n)}
	}
	return []byte{4, byte(n >> 24), byte(n >> 16), byte(n >> 8), byte(n)}
}

// IntBytes gives the big-endian bytes without the length prefix (what vm.NewLine
// expects as byteargs).
func IntBytes(n uint32) []byte { return EncodeInt(n)[1:] }

var ErrEncode = errors.New("not encodable")

// Encode appends the canonical encoding of one instruction.
func Encode(dst []byte, in Instr) ([]byte, error) {
	if in.Op < 1 || in.Op > 12 {
		return dst, fmt.Errorf("%w: opcode %d", ErrEncode, in.Op)
	}
	dst = append(dst, byte(in.Op>>8), byte(in.Op))
	strs := []BS{in.Sym, in.Sel}
	si := 0
	for _, c := range Shape(in.Op) {
		switch c {
		case 's':
			s := strs[si]
			si++
			if len(s) < 1 || len(s) > 255 {
				return dst, fmt.Errorf("%w: string length %d", ErrEncode, len(s))
			}
			dst = append(dst, byte(len(s)))
			dst = append(dst, s...)
		case 'i':
			dst = append(dst, EncodeInt(in.Num)...)
		case 'm':
			if in.Mode {
				dst = append(dst, 1)
			} else {
				dst = append(dst, 0)
			}
		}
	}
	return dst, nil
}

func EncodeAll(ins []Instr) ([]byte, error) {
	var b []byte
	var err error
	for _, in := range ins {
		b, err = Encode(b, in)
		if err != nil {
			return nil, err
		}
	}
	return b, nil
}

// Flags describing loosely specified encodings met while decoding.
type Loose struct {
	Noop       bool // opcode 0 seen
	IntLenZero bool // an integer with length byte 0 (decodes as 0 in the VM)
	NonMinimal bool // an integer with leading zero bytes
	ModeOther  bool // a matchmode byte other than 0/1
}

type DecodeError struct {
	Offset int    // offset of the instruction that is malformed
	Reason string // truncated-opcode | bad-opcode | zero-length-string | truncated-string | int-too-long | truncated-int | truncated-mode
}

func (e *DecodeError) Error() string { return fmt.Sprintf("%s at offset %d", e.Reason, e.Offset) }

// DecodeOne decodes the instruction at the start of b and returns the rest.
func DecodeOne(b []byte, base int, loose *Loose) (Instr, []byte, *DecodeError) {
	var in Instr
	if len(b) < 2 {
		return in, b, &DecodeError{base, "truncated-opcode"}
	}
	op := uint16(b[0])<<8 | uint16(b[1])
	if op > 12 {
		return in, b, &DecodeError{base, "bad-opcode"}
	}
	if op == 0 {
		if loose != nil {
			loose.Noop = true
		}
	}
	in.Op = op
	rest := b[2:]
	si := 0
	for _, c := range Shape(op) {
		switch c {
		case 's':
			if len(rest) < 1 {
				return in, b, &DecodeError{base, "truncated-string"}
			}
			l := int(rest[0])
			if l == 0 {
				return in, b, &DecodeError{base, "zero-length-string"}
			}
			if len(rest) < 1+l {
				return in, b, &DecodeError{base, "truncated-string"}
			}
			s := BS(rest[1 : 1+l])
			if si == 0 {
				in.Sym = s
			} else {
				in.Sel = s
			}
			si++
			rest = rest[1+l:]
		case 'i':
			if len(rest) < 1 {
				return in, b, &DecodeError{base, "truncated-int"}
			}
			l := int(rest[0])
			if l > 4 {
				return in, b, &DecodeError{base, "int-too-long"}
			}
			if len(rest) < 1+l {
				return in, b, &DecodeError{base, "truncated-int"}
			}
			var n uint32
			for _, x := range rest[1 : 1+l] {
				n = n<<8 | uint32(x)
			}
			if loose != nil {
				if l == 0 {
					loose.IntLenZero = true
				} else if l > 1 && rest[1] == 0 {
					loose.NonMinimal = true
				}
			}
			in.Num = n
			rest = rest[1+l:]
		case 'm':
			if len(rest) < 1 {
				return in, b, &DecodeError{base, "truncated-mode"}
			}
			in.Mode = rest[0] > 0
			if rest[0] > 1 && loose != nil {
				loose.ModeOther = true
			}
			rest = rest[1:]
		}
	}
	return in, rest, nil
}

// DecodeAll strictly decodes a whole program. On error it returns the
// instructions decoded before the malformed one.
func DecodeAll(b []byte) ([]Instr, Loose, *DecodeError) {
	var out []Instr
	var loose Loose
	off := 0
	for len(b) > 0 {
		in, rest, err := DecodeOne(b, off, &loose)
		if err != nil {
			return out, loose, err
		}
		out = append(out, in)
		off += len(b) - len(rest)
		b = rest
	}
	return out, loose, nil
}

func Equal(a, b []Instr) bool {
	if len(a) != len(b) {
		return false
	}
	for i := range a {
		if a[i] != b[i] {
			return false
		}
	}
	return true
}
