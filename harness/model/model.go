// Package model is a reference interpreter of the documented vise semantics
// (doc/texinfo: instructions, navigation, cache, signals, exceptions, render, language;
// package comments of engine/vm/state/cache; the property statements), written from
// those documents. It predicts, per request: acceptance, cont, position, flags,
// language, cache scopes, the ordered log of resource interactions and — for renders it
// can compute exactly (no size constraint on a sink) — the output.
//
// Where the documents leave a corner open the model does not guess: it stops the
// history there ("bail") and says why; checks count those cases, they never compare them.
package model

import (
	"fmt"
	"regexp"
	"sort"
	"strings"

	"verifharness/app"
	"verifharness/refdec"
)

const MaxLevel = 128

// ErrSentinel stands for the error line in a predicted output: its text is not
// specified (only that it is a non-empty line which, for invalid input, shows the input).
const ErrSentinel = "\x01ERRLINE\x01"

type MenuItem struct{ Sel, Label string }

type Frame map[string]string

// Session is the modelled state of one session.
type Session struct {
	App       *app.App
	Persisted bool // engine-per-request operation (a request with no pending code restarts at the entry node)

	Stack   []string
	Idx     int
	Flags   map[uint32]bool // TERMINATE (6) and client flags (>= 8)
	Lang    string          // ISO-639-3 code or ""
	Frames  []Frame         // Frames[0] is the engine's base scope
	Limits  map[string]uint32
	Used    int
	Last    string
	Pending []app.Instr
	Counts  map[string]int

	matched  bool
	reading  bool
	loadFail bool
	waiting  bool
	started  bool // long-lived: first request done
	ended    bool // long-lived: session over (cont=false or execution error)

	mapped []string
	menu   []MenuItem
	next   *MenuItem
	prev   *MenuItem
	msink  bool
	errmsg string
	sink   string
}

// Step is the model's prediction for one request.
type Step struct {
	Refused  bool
	ExecErr  bool   // the request fails with an execution error
	ErrWhy   string // why (model's words)
	Cont     bool
	Out      string
	OutKnown bool // Out is exact
	FlushErr bool
	FlushAny bool // the model cannot tell whether the render succeeds (size constraint on paginated content)
	Calls    []app.Call
	Fetches  []string // nodes whose bytecode was fetched, in order
	Matched  int      // INCMP lines that moved in this request
	Moves    []string // executed move targets as written (MOVE/INCMP/CATCH), in order
	Catch    string   // "", "invalid-input", "loadfail", "browse"
	Ended    string   // "", "graceful", "terminated", "blocked"
	Bail     string   // non-empty: from here on the documents do not decide; compare nothing after this request
	BailNow  bool     // the bail concerns this very request (compare nothing of it either)
	Lookups  bool     // Calls includes render lookups in exact order
	Croaked  bool     // a CROAK fired: cache scopes and everything after this request are unspecified
}

func New(a *app.App, persisted bool) *Session {
	s := &Session{App: a, Persisted: persisted, Flags: map[uint32]bool{}, Frames: []Frame{{}}, Limits: map[string]uint32{}, Counts: map[string]int{}}
	if code, ok := NormaliseLang(a.Cfg.Language); ok {
		s.Lang = code
	}
	return s
}

var inputRe = regexp.MustCompile(`^\+?[a-zA-Z0-9].*$`)

func InputAccepted(in string) bool {
	if len(in) > 255 {
		return false
	}
	return in == "" || inputRe.MatchString(in)
}

// Languages the harness uses; ISO-639-1 and -3 codes map to the -3 code.
var langs = map[string]string{"nor": "nor", "no": "nor", "eng": "eng", "en": "eng", "swa": "swa", "sw": "swa", "fra": "fra", "fr": "fra"}

// The ISO 639-2 bibliographic codes that differ from the 639-3 identifier, with their
// terminologic (= 639-3) and two-letter forms (from the standard's code tables).
func init() {
	for _, e := range [][3]string{{"alb", "sqi", "sq"}, {"arm", "hye", "hy"}, {"baq", "eus", "eu"}, {"bur", "mya", "my"}, {"chi", "zho", "zh"},
		{"cze", "ces", "cs"}, {"dut", "nld", "nl"}, {"fre", "fra", "fr"}, {"geo", "kat", "ka"}, {"ger", "deu", "de"}, {"gre", "ell", "el"},
		{"ice", "isl", "is"}, {"mac", "mkd", "mk"}, {"mao", "mri", "mi"}, {"may", "msa", "ms"}, {"per", "fas", "fa"}, {"rum", "ron", "ro"},
		{"slo", "slk", "sk"}, {"tib", "bod", "bo"}, {"wel", "cym", "cy"}} {
		langs[e[0]], langs[e[1]], langs[e[2]] = e[1], e[1], e[1]
	}
}

func NormaliseLang(code string) (string, bool) {
	c, ok := langs[code]
	return c, ok
}

func (s *Session) top() string {
	if len(s.Stack) == 0 {
		return ""
	}
	return s.Stack[len(s.Stack)-1]
}

func (s *Session) visible(sym string) (string, bool) {
	for _, f := range s.Frames {
		if v, ok := f[sym]; ok {
			return v, true
		}
	}
	return "", false
}

func (s *Session) frameOf(sym string) int {
	for i, f := range s.Frames {
		if _, ok := f[sym]; ok {
			return i
		}
	}
	return -1
}

func (s *Session) push() { s.Frames = append(s.Frames, Frame{}) }

func (s *Session) pop() {
	l := len(s.Frames) - 1
	for k, v := range s.Frames[l] {
		s.Used -= len(v)
		delete(s.Limits, k)
	}
	s.Frames = s.Frames[:l]
	if l == 0 {
		s.Frames = append(s.Frames, Frame{})
	}
}

func (s *Session) resetRenderer() {
	s.mapped, s.menu, s.next, s.prev, s.msink, s.sink = nil, nil, nil, nil, false, ""
}

type execError struct{ why string }

func (e *execError) Error() string { return e.why }

type bail struct{ why string }

func (s *Session) call(st *Step, sym, input string) (app.Result, bool, error) {
	st.Calls = append(st.Calls, app.Call{Kind: "func", Sym: sym, Lang: s.Lang, Session: s.App.Cfg.SessionId})
	sp := s.App.Sym(sym)
	if sp == nil {
		return app.Result{}, false, &execError{"no function for " + sym}
	}
	n := s.Counts[sym]
	s.Counts[sym] = n + 1
	st.Calls = append(st.Calls, app.Call{Kind: "call", Sym: sym, Lang: s.Lang, Session: s.App.Cfg.SessionId, Input: input, N: n})
	if len(sp.Results) == 0 {
		return app.Result{}, true, nil
	}
	i := n
	if i >= len(sp.Results) {
		i = len(sp.Results) - 1
	}
	r := sp.Results[i]
	if s.Lang != "" {
		if tr := s.App.TransFor(s.Lang); tr != nil {
			if t, ok := tr.Statics[sym]; ok {
				r.Content = t
			}
		}
	}
	if r.Echo {
		r.Content += input
	}
	return r, true, nil
}

// applyResult: flags (only TERMINATE, LANG and client flags are writeable) and language.
func (s *Session) applyResult(r app.Result) {
	langFlag := false
	for _, f := range r.FlagReset {
		if f > 5 {
			delete(s.Flags, f)
		}
	}
	for _, f := range r.FlagSet {
		if f == 7 {
			langFlag = true
		} else if f > 5 {
			s.Flags[f] = true
		}
	}
	for _, f := range r.FlagReset {
		_ = f
	}
	if langFlag {
		if r.Content == "" {
			panic(bail{"LANG together with empty content (unspecified)"})
		}
		if code, ok := NormaliseLang(r.Content); ok {
			s.Lang = code
		}
	}
}

// move applies a navigation target and returns the node whose code must be fetched.
func (s *Session) move(target string) (node string, indexErr bool, err error) {
	switch target {
	case "_":
		if len(s.Stack) == 0 {
			return "", false, &execError{"up beyond the entry node"}
		}
		s.Stack = s.Stack[:len(s.Stack)-1]
		s.Idx = 0
		s.pop()
		if len(s.Stack) == 0 {
			return "", false, &execError{"'_' at the entry node"}
		}
		return s.top(), false, nil
	case ">":
		if len(s.Stack) == 0 {
			return "", false, &execError{"no position"}
		}
		s.Idx++
		return s.top(), false, nil
	case "<":
		if len(s.Stack) == 0 {
			return "", false, &execError{"no position"}
		}
		if s.Idx == 0 {
			return s.top(), true, nil
		}
		s.Idx--
		return s.top(), false, nil
	case "^":
		if len(s.Stack) == 0 {
			return "", false, &execError{"no position"}
		}
		for len(s.Stack) > 1 {
			s.Stack = s.Stack[:len(s.Stack)-1]
			s.Idx = 0
			s.pop()
		}
		return s.top(), false, nil
	case ".":
		return s.top(), false, nil
	}
	if s.top() == target {
		panic(bail{"move of a node to itself (precondition)"})
	}
	if len(s.Stack) > MaxLevel {
		panic(bail{"deeper than MaxLevel"})
	}
	s.Stack = append(s.Stack, target)
	s.Idx = 0
	s.push()
	return target, false, nil
}

func (s *Session) fetch(st *Step, node string) ([]app.Instr, error) {
	st.Fetches = append(st.Fetches, node)
	st.Calls = append(st.Calls, app.Call{Kind: "code", Sym: node, Lang: s.Lang, Session: s.App.Cfg.SessionId})
	n := s.App.Node(node)
	if n == nil {
		return nil, &execError{"no such node " + node}
	}
	return append([]app.Instr{}, n.Code...), nil
}

func (s *Session) mapSym(sym string) error {
	if _, ok := s.visible(sym); !ok {
		return &execError{"MAP of a symbol that is not loaded: " + sym}
	}
	if s.Limits[sym] == 0 {
		if s.sink != "" && s.sink != sym {
			return &execError{"second sink"}
		}
		s.sink = sym
	}
	for _, m := range s.mapped {
		if m == sym {
			return nil
		}
	}
	s.mapped = append(s.mapped, sym)
	return nil
}

// exec executes one instruction.
func (s *Session) exec(st *Step, in app.Instr, input string) error {
	switch in.Op {
	case refdec.LOAD:
		sym := string(in.Sym)
		if _, ok := s.visible(sym); ok {
			return nil
		}
		r, called, err := s.call(st, sym, input)
		if err != nil {
			return err
		}
		_ = called
		if r.Err {
			s.loadFail = true
			return &execError{"external function failed"}
		}
		s.applyResult(r)
		limit := in.Num & 0xffff
		if in.Num > 0xffff {
			panic(bail{"declared size beyond 65535"})
		}
		if limit > 0 && len(r.Content) > int(limit) {
			return &execError{"result over its size limit"}
		}
		if s.App.Cfg.CacheSize > 0 && len(r.Content) > 0 && s.Used+len(r.Content) > int(s.App.Cfg.CacheSize) {
			return &execError{"cache capacity exceeded"}
		}
		s.Frames[len(s.Frames)-1][sym] = r.Content
		s.Limits[sym] = limit
		s.Used += len(r.Content)
		s.Last = r.Content
	case refdec.RELOAD:
		sym := string(in.Sym)
		r, _, err := s.call(st, sym, input)
		if err != nil {
			return err
		}
		if r.Err {
			s.loadFail = true
			return &execError{"external function failed"}
		}
		s.applyResult(r)
		if i := s.frameOf(sym); i >= 0 {
			old := s.Frames[i][sym]
			limit := s.Limits[sym]
			over := limit > 0 && len(r.Content) > int(limit)
			full := s.App.Cfg.CacheSize > 0 && s.Used-len(old)+len(r.Content) > int(s.App.Cfg.CacheSize)
			if !over && !full {
				s.Frames[i][sym] = r.Content
				s.Used += len(r.Content) - len(old)
			}
			// over the limit: the value is never stored; whether the request fails is
			// not decided by the documents (the implementation keeps the old value)
		}
		return s.mapSym(sym)
	case refdec.MAP:
		return s.mapSym(string(in.Sym))
	case refdec.MOVE:
		st.Moves = append(st.Moves, string(in.Sym))
		node, indexErr, err := s.move(string(in.Sym))
		if indexErr {
			return &execError{"'<' on the first page"}
		}
		if err != nil {
			return err
		}
		code, err := s.fetch(st, node)
		if err != nil {
			return err
		}
		s.Pending = append(s.Pending, code...)
		s.resetRenderer()
	case refdec.INCMP:
		if s.matched {
			return nil
		}
		s.reading = true
		if string(in.Sel) != "*" && string(in.Sel) != input {
			return nil
		}
		s.matched = true
		s.reading = false
		st.Moves = append(st.Moves, string(in.Sym))
		node, indexErr, err := s.move(string(in.Sym))
		if indexErr {
			// 'previous' on the first page counts as no match
			s.reading = true
			st.Moves = st.Moves[:len(st.Moves)-1]
			return nil
		}
		if err != nil {
			return err
		}
		st.Matched++
		s.resetRenderer()
		code, err := s.fetch(st, node)
		if err != nil {
			return err
		}
		s.Pending = append(s.Pending, code...)
	case refdec.CATCH:
		if in.Num < 6 {
			panic(bail{"CATCH on a built-in flag below TERMINATE"})
		}
		if s.flag(in.Num) != in.Mode {
			return nil
		}
		st.Moves = append(st.Moves, string(in.Sym))
		node, indexErr, err := s.move(string(in.Sym))
		if indexErr {
			return &execError{"'<' on the first page"}
		}
		if err != nil {
			return err
		}
		code, err := s.fetch(st, node)
		if err != nil {
			return err
		}
		s.Pending = code
		// whether earlier MAP/menu entries survive a CATCH is not documented: see render()
		if len(s.mapped) > 0 || len(s.menu) > 0 || s.next != nil || s.prev != nil || s.msink {
			panic(bail{"CATCH fired after MAP/menu instructions (what it keeps is undocumented)"})
		}
	case refdec.CROAK:
		if in.Num < 6 {
			panic(bail{"CROAK on a built-in flag below TERMINATE"})
		}
		if s.flag(in.Num) != in.Mode {
			return nil
		}
		// abandon the pending bytecode and the cached symbols; the run then ends like any
		// run that is out of code: terminate, or the invalid-input route while input is
		// being handled. What is left of the state afterwards is not documented.
		s.Pending = nil
		s.resetRenderer()
		for len(s.Frames) > 1 {
			s.pop()
		}
		st.Croaked = true
	case refdec.MOUT:
		s.menu = append(s.menu, MenuItem{string(in.Sel), string(in.Sym)})
	case refdec.MNEXT:
		s.next = &MenuItem{string(in.Sel), string(in.Sym)}
	case refdec.MPREV:
		s.prev = &MenuItem{string(in.Sel), string(in.Sym)}
	case refdec.MSINK:
		s.msink = true
	case refdec.HALT:
		s.waiting = true
	default:
		return &execError{"unknown opcode"}
	}
	return nil
}

func (s *Session) flag(i uint32) bool {
	return s.Flags[i]
}

// Terminated reports the TERMINATE flag.
func (s *Session) Terminated() bool { return s.Flags[6] }

// ClearTerminate is the "operator" step: code outside the VM clears the flag.
func (s *Session) ClearTerminate() { delete(s.Flags, 6) }

// ClientFlags lists the set client flags (>= 8), sorted.
func (s *Session) ClientFlags() []uint32 {
	var out []uint32
	for f, v := range s.Flags {
		if v && f >= 8 {
			out = append(out, f)
		}
	}
	sort.Slice(out, func(i, j int) bool { return out[i] < out[j] })
	return out
}

func (s *Session) restart() {
	for len(s.Stack) > 0 {
		s.Stack = s.Stack[:len(s.Stack)-1]
		s.pop()
	}
	s.Idx = 0
	delete(s.Flags, 6)
}

// Request predicts one request.
func (s *Session) Request(input string) (st Step) {
	defer func() {
		if r := recover(); r != nil {
			if b, ok := r.(bail); ok {
				st.Bail = b.why
				st.BailNow = true
				return
			}
			panic(r)
		}
	}()
	if !InputAccepted(input) {
		st.Refused = true
		st.ExecErr = true
		st.Cont = true
		return
	}
	if s.ended && !s.Persisted {
		st.Bail = "Exec after the end of a session on the same engine (undefined)"
		st.BailNow = true
		return
	}
	if s.Persisted {
		// engine-per-request: the renderer (error line, mappings, menu) is rebuilt for
		// every request
		s.errmsg = ""
		s.resetRenderer()
	}
	if len(s.Pending) == 0 && (s.Persisted || !s.started) {
		if len(s.Stack) > 0 && !s.Flags[6] {
			s.restart()
		}
		s.Pending = []app.Instr{{Op: refdec.MOVE, Sym: refdec.BS(s.App.RootName())}}
	}
	if s.App.Cfg.ResetOnEmptyInput && input == "" && len(s.Stack) > 0 && !s.Flags[6] {
		// Config.ResetOnEmptyInput: "purges cache and restart state execution at root on
		// empty input" — every level is left and the entry node is entered afresh (a
		// blocked session stays blocked)
		s.restart()
		s.Pending = []app.Instr{{Op: refdec.MOVE, Sym: refdec.BS(s.App.RootName())}}
	}
	s.started = true
	if len(s.Pending) == 0 {
		st.ExecErr = true
		st.ErrWhy = "no code to execute"
		return
	}
	dirty := false
	s.matched = false
	fetchBudget := 400
	for {
		if s.Flags[6] {
			// TERMINATE: nothing runs; the pending code is dropped
			s.Pending = nil
			st.Cont = false
			st.Ended = "blocked"
			if dirty {
				st.Ended = "terminated"
			}
			s.ended = true
			break
		}
		if s.waiting {
			s.waiting = false
			s.matched = false
			s.resetRenderer()
			s.errmsg = ""
		}
		dirty = true
		in := s.Pending[0]
		s.Pending = s.Pending[1:]
		err := s.exec(&st, in, input)
		if len(st.Fetches) > fetchBudget {
			st.Bail = "move budget"
			st.BailNow = true
			return
		}
		if err != nil {
			if s.loadFail {
				// default error case: purge, go to the catch node with the error
				s.errmsg = ErrSentinel
				s.loadFail = false // LOADFAIL lives until the next instruction (signals.texi)
				st.Catch = "loadfail"
				s.Pending = []app.Instr{{Op: refdec.MOVE, Sym: "_catch"}}
				if s.top() == "_catch" {
					st.Bail = "failure inside the catch node"
					st.BailNow = true
					return
				}
				continue
			}
			st.ExecErr = true
			st.ErrWhy = err.Error()
			s.Pending = nil
			s.ended = true
			if s.Persisted {
				// engine-per-request: the failed request is saved without pending code, and
				// the next request starts the session over at the entry node (client flags
				// and language kept)
				// (READIN stays as the failed run left it: nothing between the failure and the
				// restart clears it)
				s.matched, s.waiting = false, false
				return
			}
			st.Bail = "after an execution error nothing is specified"
			return
		}
		if in.Op == refdec.HALT {
			break
		}
		if len(s.Pending) == 0 {
			if s.Flags[6] {
				continue
			}
			if !s.reading {
				s.Flags[6] = true
				continue
			}
			// input was being handled and nothing matched: invalid input
			if s.top() == "" || s.top() == "_catch" {
				st.ExecErr = true
				st.ErrWhy = "unmatched input inside the catch node"
				s.ended = true
				st.Bail = "after an execution error nothing is specified"
				return
			}
			s.errmsg = ErrSentinel
			s.reading = false // READIN ends with the invalid-input exception (signals.texi)
			st.Catch = "invalid-input"
			s.Pending = []app.Instr{{Op: refdec.MOVE, Sym: "_catch"}}
		}
	}
	if st.Ended == "" {
		st.Cont = len(s.Pending) > 0
		if !st.Cont {
			st.Ended = "graceful"
		}
	}
	if st.Croaked {
		st.Bail = "aftermath of a firing CROAK"
	}
	// render
	s.render(&st, dirty)
	if st.Ended == "graceful" {
		exit := s.Last
		s.Last = ""
		if st.OutKnown {
			st.Out += exit
		}
		if st.FlushErr && exit != "" {
			// the page failed but the exit value is still delivered
			st.FlushErr = false
			st.Out = exit
			st.OutKnown = true
		}
		s.restart()
		s.ended = true
	}
	return
}

func (s *Session) template(st *Step, node string) (string, bool) {
	st.Calls = append(st.Calls, app.Call{Kind: "template", Sym: node, Lang: s.Lang, Session: s.App.Cfg.SessionId})
	n := s.App.Node(node)
	if n == nil {
		return "", false
	}
	if s.Lang != "" {
		if tr := s.App.TransFor(s.Lang); tr != nil {
			if t, ok := tr.Templates[node]; ok {
				return t, true
			}
		}
	}
	return n.Tpl, true
}

func (s *Session) label(st *Step, sym string) string {
	st.Calls = append(st.Calls, app.Call{Kind: "menu", Sym: sym, Lang: s.Lang, Session: s.App.Cfg.SessionId})
	if s.Lang != "" {
		if tr := s.App.TransFor(s.Lang); tr != nil {
			if t, ok := tr.Menus[sym]; ok {
				return t
			}
		}
	}
	if t, ok := s.App.Menus[sym]; ok {
		return t
	}
	return sym
}

var placeholderRe = regexp.MustCompile(`\{\{\.([a-zA-Z_][a-zA-Z0-9_]*)\}\}`)

func (s *Session) render(st *Step, dirty bool) {
	st.Lookups = false
	if !dirty || len(s.Stack) == 0 {
		st.Out, st.OutKnown = "", true
		return
	}
	sized := s.App.Cfg.OutputSize > 0
	paginated := s.sink != "" || s.msink
	if sized {
		// with a size constraint the renderer makes extra passes (lookups) and, for
		// paginated content, decides page breaks: not predicted here
		if paginated || s.Idx > 0 || s.errmsg != "" {
			// (also: the length of the error line is not specified, so whether a page
			// with an error prefix still fits cannot be predicted)
			// page breaks (and whether a lateral index is past the last page, which sends
			// the session to the catch node) are C01/C02's business
			st.FlushAny = true
			return
		}
	}
	if s.Idx > 0 {
		// a lateral index on a node that is not paginated: the render fails
		st.FlushErr = true
		st.OutKnown = true
		s.template(st, s.top())
		st.Lookups = false
		return
	}
	if s.msink {
		st.FlushAny = true
		st.Bail = "MSINK without a size constraint"
		return
	}
	tpl, ok := s.template(st, s.top())
	if !ok {
		st.FlushErr = true
		return
	}
	if s.errmsg != "" {
		if tpl == "" {
			tpl = s.errmsg
		} else {
			tpl = s.errmsg + "\n" + tpl
		}
	}
	values := map[string]string{}
	for _, m := range s.mapped {
		v, _ := s.visible(m)
		values[m] = v
	}
	missing := false
	body := placeholderRe.ReplaceAllStringFunc(tpl, func(ph string) string {
		name := placeholderRe.FindStringSubmatch(ph)[1]
		v, ok := values[name]
		if !ok {
			missing = true
		}
		return v
	})
	if missing {
		st.FlushErr = true
		st.OutKnown = true
		return
	}
	var lines []string
	sep := s.App.Cfg.MenuSeparator
	if sep == "" {
		sep = ":"
	}
	for _, m := range s.menu {
		lines = append(lines, m.Sel+sep+s.label(st, m.Label))
	}
	out := body
	if len(lines) > 0 {
		out += "\n" + strings.Join(lines, "\n")
	}
	if sized && len(out) > int(s.App.Cfg.OutputSize) {
		st.FlushErr = true
		st.OutKnown = true
		st.Lookups = false
		return
	}
	st.Out, st.OutKnown = out, true
	st.Lookups = !sized
}

// Describe is a one-line rendering of the modelled position for messages.
func (s *Session) Describe() string {
	return fmt.Sprintf("%s[%d] flags=%v lang=%q frames=%v", strings.Join(s.Stack, "/"), s.Idx, s.ClientFlags(), s.Lang, s.Frames)
}
