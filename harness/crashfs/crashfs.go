// Package crashfs turns an strace log of a process into the list of file-system
// operations it performed below one directory, and replays any prefix of that list
// (including partial writes) on an in-memory file tree — the directory a process death
// at that point leaves behind (process crash model: completed syscalls are durable and
// ordered; power loss and reordering below the syscall layer are out of scope).
package crashfs

import (
	"bufio"
	"fmt"
	"os"
	"path/filepath"
	"regexp"
	"sort"
	"strconv"
	"strings"
)

// Op is one traced operation. Only operations that touch paths below the watched
// directory (or descriptors opened there) are kept, plus markers.
type Op struct {
	Kind   string // marker open write pwrite truncate ftruncate rename unlink mkdir close link fsync
	Path   string // absolute
	Path2  string // rename/link target
	Fd     int
	Flags  map[string]bool
	Data   []byte
	Off    int64 // pwrite offset, truncate length
	Marker string
	Line   int
}

func (o Op) String() string {
	switch o.Kind {
	case "marker":
		return "marker " + o.Marker
	case "open":
		var f []string
		for k := range o.Flags {
			f = append(f, k)
		}
		sort.Strings(f)
		return fmt.Sprintf("open(%s, %s) = %d", filepath.Base(o.Path), strings.Join(f, "|"), o.Fd)
	case "write":
		return fmt.Sprintf("write(%d, %d bytes)", o.Fd, len(o.Data))
	case "pwrite":
		return fmt.Sprintf("pwrite(%d, %d bytes, off %d)", o.Fd, len(o.Data), o.Off)
	case "rename":
		return fmt.Sprintf("rename(%s -> %s)", filepath.Base(o.Path), filepath.Base(o.Path2))
	case "link":
		return fmt.Sprintf("link(%s -> %s)", filepath.Base(o.Path), filepath.Base(o.Path2))
	case "ftruncate":
		return fmt.Sprintf("ftruncate(%d, %d)", o.Fd, o.Off)
	case "truncate":
		return fmt.Sprintf("truncate(%s, %d)", filepath.Base(o.Path), o.Off)
	case "close", "fsync":
		return fmt.Sprintf("%s(%d)", o.Kind, o.Fd)
	}
	return fmt.Sprintf("%s(%s)", o.Kind, filepath.Base(o.Path))
}

var lineRe = regexp.MustCompile(`^(\d+)\s+(\w+)\((.*)\)\s+=\s+(-?\d+|\?)(?:\s.*)?$`)
var unfinishedRe = regexp.MustCompile(`^(\d+)\s+(\w+)\((.*) <unfinished \.\.\.>$`)
var resumedRe = regexp.MustCompile(`^(\d+)\s+<\.\.\. (\w+) resumed>(.*)$`)

// ErrUnknown is returned for a syscall on the watched directory that the replayer does
// not model: the check must then report "inconclusive", never guess.
type ErrUnknown struct{ Line string }

func (e *ErrUnknown) Error() string { return "unmodelled syscall on the store directory: " + e.Line }

// splitArgs splits a syscall argument list at top-level commas.
func splitArgs(s string) []string {
	var out []string
	depth := 0
	inStr := false
	start := 0
	for i := 0; i < len(s); i++ {
		c := s[i]
		switch {
		case inStr:
			if c == '\\' {
				i++
			} else if c == '"' {
				inStr = false
			}
		case c == '"':
			inStr = true
		case c == '{' || c == '[' || c == '(':
			depth++
		case c == '}' || c == ']' || c == ')':
			depth--
		case c == ',' && depth == 0:
			out = append(out, strings.TrimSpace(s[start:i]))
			start = i + 1
		}
	}
	out = append(out, strings.TrimSpace(s[start:]))
	return out
}

// unquote decodes an strace -xx string ("\x61\x62"); ok=false when it was abbreviated.
func unquote(s string) ([]byte, bool) {
	if !strings.HasPrefix(s, `"`) {
		return nil, false
	}
	end := strings.LastIndex(s, `"`)
	if end <= 0 {
		return nil, false
	}
	if strings.HasSuffix(s, "...") {
		return nil, false
	}
	body := s[1:end]
	out := make([]byte, 0, len(body)/4)
	for i := 0; i < len(body); {
		if body[i] == '\\' && i+3 < len(body) && body[i+1] == 'x' {
			v, err := strconv.ParseUint(body[i+2:i+4], 16, 8)
			if err != nil {
				return nil, false
			}
			out = append(out, byte(v))
			i += 4
		} else {
			out = append(out, body[i])
			i++
		}
	}
	return out, true
}

const markerPrefix = "/verif-marker/"

// Parse reads an strace log (-f -xx, large -s) and returns the operations that concern
// dir, with markers in place.
func Parse(tracePath, dir string, more ...string) ([]Op, error) {
	f, err := os.Open(tracePath)
	if err != nil {
		return nil, err
	}
	defer f.Close()
	dir = filepath.Clean(dir)
	// dir is the store; more names further directories whose files are followed too (a
	// temporary directory elsewhere, from which files may be moved into the store)
	roots := []string{dir}
	for _, m := range more {
		roots = append(roots, filepath.Clean(m))
	}
	under := func(p string) bool {
		for _, r := range roots {
			if p == r || strings.HasPrefix(p, r+"/") {
				return true
			}
		}
		return false
	}
	sc := bufio.NewScanner(f)
	sc.Buffer(make([]byte, 1<<20), 1<<28)
	pending := map[string]string{} // pid -> unfinished prefix
	tracked := map[int]bool{}      // fds opened below dir
	var ops []Op
	n := 0
	for sc.Scan() {
		n++
		line := sc.Text()
		if m := unfinishedRe.FindStringSubmatch(line); m != nil {
			pending[m[1]] = m[1] + " " + m[2] + "(" + m[3]
			continue
		}
		if m := resumedRe.FindStringSubmatch(line); m != nil {
			pre, ok := pending[m[1]]
			if !ok {
				continue
			}
			delete(pending, m[1])
			line = pre + m[3]
		}
		m := lineRe.FindStringSubmatch(line)
		if m == nil {
			continue // signals, exits
		}
		name, argstr, ret := m[2], m[3], m[4]
		args := splitArgs(argstr)
		retv, _ := strconv.Atoi(ret)
		failed := ret == "?" || retv < 0
		pathArg := func(i int) (string, bool) {
			if i >= len(args) {
				return "", false
			}
			b, ok := unquote(args[i])
			return string(b), ok
		}
		switch name {
		case "newfstatat", "stat", "lstat", "fstatat64", "statx", "access", "faccessat", "faccessat2", "readlink", "readlinkat", "getcwd", "chdir", "execve":
			// read-only; markers come as a stat of the magic path
			for i := range args {
				if p, ok := pathArg(i); ok && strings.HasPrefix(p, markerPrefix) {
					ops = append(ops, Op{Kind: "marker", Marker: strings.TrimPrefix(p, markerPrefix), Line: n})
				}
			}
		case "openat", "open", "creat":
			pi, fi := 1, 2
			if name == "open" {
				pi, fi = 0, 1
			}
			if name == "creat" {
				pi, fi = 0, -1
			}
			p, ok := pathArg(pi)
			if !ok {
				continue
			}
			if !filepath.IsAbs(p) {
				if under(p) {
					return nil, &ErrUnknown{line}
				}
				continue
			}
			p = filepath.Clean(p)
			if !under(p) || failed {
				continue
			}
			flags := map[string]bool{}
			if fi >= 0 && fi < len(args) {
				for _, fl := range strings.Split(args[fi], "|") {
					flags[strings.TrimSpace(fl)] = true
				}
			} else {
				flags["O_WRONLY"], flags["O_CREAT"], flags["O_TRUNC"] = true, true, true
			}
			tracked[retv] = true
			ops = append(ops, Op{Kind: "open", Path: p, Fd: retv, Flags: flags, Line: n})
		case "write", "pwrite64":
			fd, _ := strconv.Atoi(args[0])
			if !tracked[fd] || failed {
				continue
			}
			data, ok := unquote(args[1])
			if !ok {
				return nil, fmt.Errorf("line %d: abbreviated write payload (raise strace -s)", n)
			}
			data = data[:min(len(data), retv)]
			if name == "write" {
				ops = append(ops, Op{Kind: "write", Fd: fd, Data: data, Line: n})
			} else {
				off, _ := strconv.ParseInt(args[3], 10, 64)
				ops = append(ops, Op{Kind: "pwrite", Fd: fd, Data: data, Off: off, Line: n})
			}
		case "writev", "pwritev", "pwritev2", "sendfile", "copy_file_range", "fallocate", "splice":
			if failed {
				continue // a call that failed changed nothing
			}
			fd, _ := strconv.Atoi(args[0])
			if name == "sendfile" || name == "copy_file_range" || name == "splice" {
				// destination descriptor position varies; be conservative
				for _, a := range args {
					if v, err := strconv.Atoi(a); err == nil && tracked[v] {
						return nil, &ErrUnknown{line}
					}
				}
				continue
			}
			if tracked[fd] {
				return nil, &ErrUnknown{line}
			}
		case "ftruncate":
			fd, _ := strconv.Atoi(args[0])
			if !tracked[fd] || failed {
				continue
			}
			l, _ := strconv.ParseInt(args[1], 10, 64)
			ops = append(ops, Op{Kind: "ftruncate", Fd: fd, Off: l, Line: n})
		case "truncate":
			p, ok := pathArg(0)
			if ok && under(filepath.Clean(p)) && !failed {
				l, _ := strconv.ParseInt(args[1], 10, 64)
				ops = append(ops, Op{Kind: "truncate", Path: filepath.Clean(p), Off: l, Line: n})
			}
		case "close":
			fd, _ := strconv.Atoi(args[0])
			if tracked[fd] {
				delete(tracked, fd)
				ops = append(ops, Op{Kind: "close", Fd: fd, Line: n})
			}
		case "fsync", "fdatasync":
			fd, _ := strconv.Atoi(args[0])
			if tracked[fd] {
				ops = append(ops, Op{Kind: "fsync", Fd: fd, Line: n})
			}
		case "dup", "dup2", "dup3", "fcntl":
			fd, _ := strconv.Atoi(args[0])
			if tracked[fd] && name != "fcntl" {
				return nil, &ErrUnknown{line}
			}
			if tracked[fd] && name == "fcntl" && len(args) > 1 && strings.HasPrefix(args[1], "F_DUPFD") {
				return nil, &ErrUnknown{line}
			}
		case "rename", "renameat", "renameat2", "link", "linkat":
			var a, b string
			var ok1, ok2 bool
			switch name {
			case "rename", "link":
				a, ok1 = pathArg(0)
				b, ok2 = pathArg(1)
			default:
				a, ok1 = pathArg(1)
				b, ok2 = pathArg(3)
			}
			if !ok1 || !ok2 {
				continue
			}
			a, b = filepath.Clean(a), filepath.Clean(b)
			if !under(a) && !under(b) {
				continue
			}
			if failed {
				continue
			}
			if !filepath.IsAbs(a) || !filepath.IsAbs(b) || !under(a) || !under(b) {
				return nil, &ErrUnknown{line}
			}
			kind := "rename"
			if strings.HasPrefix(name, "link") {
				kind = "link"
			}
			ops = append(ops, Op{Kind: kind, Path: a, Path2: b, Line: n})
		case "unlink", "unlinkat", "rmdir":
			pi := 0
			if name == "unlinkat" {
				pi = 1
			}
			p, ok := pathArg(pi)
			if ok && under(filepath.Clean(p)) && !failed {
				ops = append(ops, Op{Kind: "unlink", Path: filepath.Clean(p), Line: n})
			}
		case "mkdir", "mkdirat":
			pi := 0
			if name == "mkdirat" {
				pi = 1
			}
			p, ok := pathArg(pi)
			if ok && under(filepath.Clean(p)) && !failed {
				ops = append(ops, Op{Kind: "mkdir", Path: filepath.Clean(p), Line: n})
			}
		case "chmod", "fchmod", "fchmodat", "chown", "fchown", "fchownat", "utimensat", "read", "pread64", "lseek", "getdents64", "fstat", "mmap", "epoll_ctl", "epoll_pwait", "epoll_create1", "eventfd2", "pipe2":
			// no effect on names or contents
		default:
			// any other syscall that names a path below the store directory is not modelled
			for i := range args {
				if p, ok := pathArg(i); ok && filepath.IsAbs(p) && under(filepath.Clean(p)) && !failed {
					return nil, &ErrUnknown{line}
				}
			}
		}
	}
	return ops, sc.Err()
}

// FS is the in-memory file tree below the watched directory.
type FS struct {
	names  map[string]int // path -> inode
	inodes map[int][]byte
	fds    map[int]*fdState
	next   int
}

type fdState struct {
	inode  int
	off    int64
	append bool
	wrote  bool
}

func NewFS() *FS {
	return &FS{names: map[string]int{}, inodes: map[int][]byte{}, fds: map[int]*fdState{}}
}

func (f *FS) Clone() *FS {
	c := NewFS()
	c.next = f.next
	for k, v := range f.names {
		c.names[k] = v
	}
	for k, v := range f.inodes {
		c.inodes[k] = append([]byte(nil), v...)
	}
	for k, v := range f.fds {
		cp := *v
		c.fds[k] = &cp
	}
	return c
}

// Files returns path -> content.
func (f *FS) Files() map[string][]byte {
	out := map[string][]byte{}
	for p, ino := range f.names {
		out[p] = f.inodes[ino]
	}
	return out
}

func (f *FS) Get(path string) ([]byte, bool) {
	ino, ok := f.names[path]
	if !ok {
		return nil, false
	}
	return f.inodes[ino], true
}

func (f *FS) writeAt(st *fdState, data []byte, off int64) {
	b := f.inodes[st.inode]
	if int64(len(b)) < off+int64(len(data)) {
		nb := make([]byte, off+int64(len(data)))
		copy(nb, b)
		b = nb
	}
	copy(b[off:], data)
	f.inodes[st.inode] = b
	st.wrote = true
}

// Apply executes one operation. partial >= 0 applies only that many bytes of a write.
// It reports whether the operation "published" a file: a close of a descriptor that was
// written, or a rename/link onto a name.
func (f *FS) Apply(op Op, partial int) (published string) {
	switch op.Kind {
	case "open":
		ino, ok := f.names[op.Path]
		if !ok {
			if !op.Flags["O_CREAT"] && !op.Flags["O_TMPFILE"] {
				// a successful open of something that was never created here: a directory
				// (listing it) - nothing comes into being; should it be a file after all and be
				// written to, the self-check against the real directory says so
				return
			}
			f.next++
			ino = f.next
			f.names[op.Path] = ino
			f.inodes[ino] = nil
		}
		if op.Flags["O_TRUNC"] {
			f.inodes[ino] = nil
		}
		f.fds[op.Fd] = &fdState{inode: ino, append: op.Flags["O_APPEND"]}
	case "write":
		st := f.fds[op.Fd]
		if st == nil {
			return
		}
		data := op.Data
		if partial >= 0 && partial < len(data) {
			data = data[:partial]
		}
		off := st.off
		if st.append {
			off = int64(len(f.inodes[st.inode]))
		}
		f.writeAt(st, data, off)
		st.off = off + int64(len(data))
	case "pwrite":
		st := f.fds[op.Fd]
		if st == nil {
			return
		}
		data := op.Data
		if partial >= 0 && partial < len(data) {
			data = data[:partial]
		}
		f.writeAt(st, data, op.Off)
	case "ftruncate":
		if st := f.fds[op.Fd]; st != nil {
			b := f.inodes[st.inode]
			if int64(len(b)) > op.Off {
				b = b[:op.Off]
			} else {
				b = append(b, make([]byte, op.Off-int64(len(b)))...)
			}
			f.inodes[st.inode] = b
			st.wrote = true
		}
	case "truncate":
		if ino, ok := f.names[op.Path]; ok {
			b := f.inodes[ino]
			if int64(len(b)) > op.Off {
				f.inodes[ino] = b[:op.Off]
			}
		}
	case "close":
		if st := f.fds[op.Fd]; st != nil {
			delete(f.fds, op.Fd)
			if st.wrote {
				for p, ino := range f.names {
					if ino == st.inode {
						published = p
					}
				}
			}
		}
	case "rename":
		if ino, ok := f.names[op.Path]; ok {
			delete(f.names, op.Path)
			f.names[op.Path2] = ino
			published = op.Path2
		}
	case "link":
		if ino, ok := f.names[op.Path]; ok {
			f.names[op.Path2] = ino
			published = op.Path2
		}
	case "unlink":
		delete(f.names, op.Path)
	}
	return
}

// Materialise writes the tree below root (paths are absolute below dir; they are
// re-rooted from dir to root).
func (f *FS) Materialise(dir, root string) error {
	if err := os.MkdirAll(root, 0700); err != nil {
		return err
	}
	var paths []string
	for p := range f.names {
		paths = append(paths, p)
	}
	sort.Strings(paths)
	first := map[int]string{} // names of one inode stay hard links of one file
	for _, p := range paths {
		rel, err := filepath.Rel(dir, p)
		if err != nil || strings.HasPrefix(rel, "..") {
			continue
		}
		dst := filepath.Join(root, rel)
		if err := os.MkdirAll(filepath.Dir(dst), 0700); err != nil {
			return err
		}
		ino := f.names[p]
		if prev, ok := first[ino]; ok {
			if err := os.Link(prev, dst); err != nil {
				return err
			}
			continue
		}
		if err := os.WriteFile(dst, f.inodes[ino], 0600); err != nil {
			return err
		}
		first[ino] = dst
	}
	return nil
}

// Aliased reports whether some path shares its inode with another path.
func (f *FS) Aliased() bool {
	seen := map[int]bool{}
	for _, ino := range f.names {
		if seen[ino] {
			return true
		}
		seen[ino] = true
	}
	return false
}

// EqualDir compares the tree with a real directory (self-check of the replayer).
func (f *FS) EqualDir(dir string) error {
	want := f.Files()
	seen := map[string]bool{}
	err := filepath.Walk(dir, func(p string, info os.FileInfo, err error) error {
		if err != nil || info.IsDir() {
			return err
		}
		b, err := os.ReadFile(p)
		if err != nil {
			return err
		}
		w, ok := want[p]
		if !ok {
			return fmt.Errorf("real directory has %s, the replayed tree does not", p)
		}
		if string(w) != string(b) {
			return fmt.Errorf("content of %s differs between the real directory and the replayed tree", p)
		}
		seen[p] = true
		return nil
	})
	if err != nil {
		return err
	}
	for p := range want {
		if !seen[p] && (p == dir || strings.HasPrefix(p, filepath.Clean(dir)+"/")) {
			return fmt.Errorf("replayed tree has %s, the real directory does not", p)
		}
	}
	return nil
}
