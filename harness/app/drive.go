package app

import (
	"bytes"
	"context"
	"fmt"
	"io"
	"regexp"
	"runtime/debug"

	"git.defalsify.org/vise.git/cache"
	"git.defalsify.org/vise.git/db"
	fsdb "git.defalsify.org/vise.git/db/fs"
	memdb "git.defalsify.org/vise.git/db/mem"
	"git.defalsify.org/vise.git/engine"
	"git.defalsify.org/vise.git/persist"
	"git.defalsify.org/vise.git/resource"
	"git.defalsify.org/vise.git/state"
)

// Storage hands out store handles on one underlying storage.
type Storage interface {
	Open(ctx context.Context) (db.Db, error)
	Name() string
}

type memStorage struct{ d db.Db }

// NewMemStorage: one memDb object is the storage; every Open returns it.
func NewMemStorage() Storage {
	d := memdb.NewMemDb()
	d.Connect(context.Background(), "")
	return &memStorage{d}
}
func (m *memStorage) Open(ctx context.Context) (db.Db, error) { return m.d, nil }
func (m *memStorage) Name() string                            { return "mem" }

// PutRecord is one value handed to a store's Put.
type PutRecord struct {
	Prefix uint8
	Key    string
	Val    []byte
}

type recordingStorage struct {
	inner Storage
	log   *[]PutRecord
}

// RecordingStorage notes every value the library hands to Put of a handle it opened
// (what was asked to be stored, whatever the backend makes of it).
func RecordingStorage(inner Storage, log *[]PutRecord) Storage {
	return &recordingStorage{inner, log}
}
func (r *recordingStorage) Name() string { return r.inner.Name() }
func (r *recordingStorage) Open(ctx context.Context) (db.Db, error) {
	d, err := r.inner.Open(ctx)
	if err != nil {
		return nil, err
	}
	return &recordingDb{Db: d, log: r.log}, nil
}

type recordingDb struct {
	db.Db
	log *[]PutRecord
}

func (r *recordingDb) Put(ctx context.Context, key []byte, val []byte) error {
	*r.log = append(*r.log, PutRecord{Prefix: r.Db.Prefix(), Key: string(key), Val: append([]byte{}, val...)})
	return r.Db.Put(ctx, key, val)
}

type fsStorage struct {
	dir    string
	binary bool
}

// NewFsStorage: a directory is the storage; every Open creates a new fsDb handle on it.
func NewFsStorage(dir string, binary bool) Storage { return &fsStorage{dir, binary} }
func (f *fsStorage) Open(ctx context.Context) (db.Db, error) {
	d := fsdb.NewFsDb()
	if f.binary {
		d = d.WithBinary()
	}
	if err := d.Connect(ctx, f.dir); err != nil {
		return nil, err
	}
	return d, nil
}
func (f *fsStorage) Name() string {
	if f.binary {
		return "fsbin"
	}
	return "fs"
}

// Snapshot is the observable content of a session's state and cache objects.
type Snapshot struct {
	Path   []string            `json:"path"`
	Idx    uint16              `json:"idx"`
	Flags  []byte              `json:"flags"`
	Lang   string              `json:"lang,omitempty"`
	Code   []byte              `json:"code,omitempty"`
	Moves  uint32              `json:"moves"`
	Frames []map[string]string `json:"frames"`
	Sizes  map[string]uint16   `json:"sizes"`
	Used   uint32              `json:"used"`
	Cap    uint32              `json:"cap"`
	Last   string              `json:"last,omitempty"` // cache.LastValue (serialised with the session)
}

func TakeSnapshot(st *state.State, ca *cache.Cache) *Snapshot {
	if st == nil || ca == nil {
		return nil
	}
	s := &Snapshot{
		Path: append([]string{}, st.ExecPath...), Idx: st.SizeIdx, Flags: append([]byte{}, st.Flags...),
		Code: append([]byte{}, st.Code...), Moves: st.Moves, Used: ca.CacheUseSize, Cap: ca.CacheSize,
		Sizes: map[string]uint16{}, Last: ca.LastValue,
	}
	if st.Language != nil {
		s.Lang = st.Language.Code
	}
	for _, f := range ca.Cache {
		m := map[string]string{}
		for k, v := range f {
			m[k] = v
			s.Sizes[k] = ca.Sizes[k]
		}
		s.Frames = append(s.Frames, m)
	}
	return s
}

// Step is everything observable about one request.
type Step struct {
	Input     string    `json:"input"`
	Cont      bool      `json:"cont"`
	ExecErr   string    `json:"exec_err,omitempty"`
	FlushErr  string    `json:"flush_err,omitempty"`
	FinishErr string    `json:"finish_err,omitempty"`
	Flushed   bool      `json:"flushed"`
	Out       string    `json:"out"`
	Panic     string    `json:"panic,omitempty"`
	PanicAt   string    `json:"panic_at,omitempty"`
	Stack     string    `json:"-"`
	Calls     []Call    `json:"calls,omitempty"`
	Exceeded  bool      `json:"exceeded,omitempty"` // move budget hit: the case is outside the domain
	// Tampered: the library changed memory of the application that it was only given to read
	Tampered string `json:"tampered,omitempty"`
	After     *Snapshot `json:"after,omitempty"`
}

// Visible is what the client sees of a step.
func (s Step) Visible() string {
	return fmt.Sprintf("cont=%v execErr=%v flushErr=%v out=%q", s.Cont, s.ExecErr != "", s.FlushErr != "", s.Out)
}

type Mode struct {
	Kind    string `json:"kind"`              // long | persist | long+persist | objects (an engine per request over state and cache objects the application keeps)
	Backend string `json:"backend,omitempty"` // mem fs fsbin pg (persist kinds)
	// Reuse "flush" (persist kind): one persist.Persister created WithFlush serves every
	// request - and every session - of the process, instead of a new one per request;
	// "keep": one persister without flushing serves every session the store already knows
	Reuse string `json:"reuse,omitempty"`
}

// stored: the store has a record for this session.
func (s *Session) stored(store db.Db) bool {
	p := persist.NewPersister(store).WithContent(state.NewState(s.Cfg.FlagCount), cache.NewCache())
	return p.Load(s.Cfg.SessionId) == nil
}

// PerRequest: every request is served by an engine of its own.
func (m Mode) PerRequest() bool {
	return m.Kind == "persist" || m.Kind == "objects"
}

// PeBox holds the persister that sessions in Reuse mode share.
type PeBox struct {
	Pe *persist.Persister
}

// FirstCall is one call of the engine's first function.
type FirstCall struct {
	Lang  string // language on the context ("" = none)
	Input string
}

// Session serves one session id in a given mode.
type Session struct {
	Shared  *Shared
	Rec     *Recorder
	Mode    Mode
	Storage Storage
	Cfg     engine.Config

	// long-lived pieces
	en *engine.DefaultEngine
	St *state.State
	Ca *cache.Cache
	// FirstSeen: what the engine's first function was called with, in call order
	FirstSeen []FirstCall
	// FlushOnErr: also call Flush when Exec returned an error (C17 probes this)
	FlushOnErr bool
	// ReuseBuf: every input is handed to Exec in one and the same buffer (a caller that
	// reads requests into a fixed buffer), overwritten for the next request
	ReuseBuf bool
	buf      [1024]byte
	// HoldRefused (engine-per-request operation): an engine whose first Exec was refused
	// for the length of the input is kept and serves the request after the next one (a
	// caller that retries on the object it has), while a fresh engine serves the one in
	// between
	HoldRefused bool
	// PeBox (Mode.Reuse): the shared persister; set it to share one with another Session
	PeBox    *PeBox
	held     *engine.DefaultEngine
	heldPe   *persist.Persister
	heldWait int
	// NoFlush: never call Flush (C17: asking for output before executing)
}

func EngineConfig(c Config) engine.Config {
	return engine.Config{
		OutputSize: c.OutputSize, SessionId: c.SessionId, Root: c.Root, FlagCount: c.FlagCount,
		CacheSize: c.CacheSize, Language: c.Language, MenuSeparator: c.MenuSeparator,
		ResetOnEmptyInput: c.ResetOnEmptyInput,
		StateDebug:        c.StateDebug, EngineDebug: c.EngineDebug,
	}
}

// newEngine builds an engine the way the application is configured.
func (s *Session) newEngine() *engine.DefaultEngine {
	e := engine.NewEngine(s.Cfg, s.Shared.Resource(s.Rec))
	if s.Shared.App.Cfg.Debugger {
		e = e.WithDebug(engine.NewSimpleDebug(io.Discard))
	}
	if f := s.Shared.App.Cfg.First; f != nil {
		e = e.WithFirst(func(ctx context.Context, sym string, input []byte) (resource.Result, error) {
			n := len(s.FirstSeen)
			s.FirstSeen = append(s.FirstSeen, FirstCall{Lang: ctxLang(ctx), Input: string(input)})
			r := resource.Result{Content: f.Content, FlagSet: append([]uint32{}, f.FlagSet...)}
			for _, at := range f.StopAt {
				if at == n {
					r.FlagSet = append(r.FlagSet, 6)
				}
			}
			for _, at := range f.ErrAt {
				if at == n {
					return resource.Result{}, fmt.Errorf("first function fails (call %d)", n)
				}
			}
			return r, nil
		})
	}
	return e
}

func NewSession(sh *Shared, mode Mode, storage Storage) *Session {
	return &Session{Shared: sh, Rec: NewRecorder(), Mode: mode, Storage: storage, Cfg: EngineConfig(sh.App.Cfg)}
}

func protect(where string, st *Step, f func()) (ok bool) {
	defer func() {
		if r := recover(); r != nil {
			st.Panic = fmt.Sprint(r)
			st.PanicAt = where
			st.Stack = string(debug.Stack())
			ok = false
		}
	}()
	f()
	return true
}

var acceptablePattern = regexp.MustCompile(`^\+?[a-zA-Z0-9].*$`)

// acceptable: the documented input contract (empty, or the input pattern and at most 255 bytes).
func acceptable(input []byte) bool {
	return len(input) == 0 || (len(input) <= 255 && acceptablePattern.Match(input))
}

// Request serves one client input.
func (s *Session) Request(input []byte) (step Step) {
	ctx := context.Background()
	step = Step{Input: string(input)}
	mark := s.Rec.Begin()
	defer func() {
		step.Calls = s.Rec.Since(mark)
		step.Exceeded = s.Rec.Exceeded
		step.Tampered = FlagGuardsTampered()
	}()
	var en *engine.DefaultEngine
	var pe *persist.Persister
	switch s.Mode.Kind {
	case "long", "long+persist":
		if s.en == nil {
			s.St = state.NewState(s.Cfg.FlagCount)
			s.Ca = cache.NewCache()
			if s.Cfg.CacheSize > 0 {
				s.Ca = s.Ca.WithCacheSize(s.Cfg.CacheSize)
			}
			e := s.newEngine().WithState(s.St).WithMemory(s.Ca)
			if s.Mode.Kind == "long+persist" {
				store, err := s.Storage.Open(ctx)
				if err != nil {
					step.ExecErr = "storage: " + err.Error()
					return step
				}
				e = e.WithPersister(persist.NewPersister(store))
			}
			s.en = e
		}
		en = s.en
	case "objects":
		if s.St == nil {
			s.St = state.NewState(s.Cfg.FlagCount)
			s.Ca = cache.NewCache()
			if s.Cfg.CacheSize > 0 {
				s.Ca = s.Ca.WithCacheSize(s.Cfg.CacheSize)
			}
		}
		en = s.newEngine().WithState(s.St).WithMemory(s.Ca)
	case "persist":
		store, err := s.Storage.Open(ctx)
		if err != nil {
			step.ExecErr = "storage: " + err.Error()
			return step
		}
		if s.held != nil && s.heldWait == 0 && acceptable(input) {
			en, pe = s.held, s.heldPe
			s.held, s.heldPe = nil, nil
			break
		}
		if s.held != nil && s.heldWait > 0 && acceptable(input) {
			s.heldWait--
		}
		switch {
		case s.Mode.Reuse == "flush":
			if s.PeBox == nil {
				s.PeBox = &PeBox{}
			}
			if s.PeBox.Pe == nil {
				s.PeBox.Pe = persist.NewPersister(store).WithFlush()
			}
			pe = s.PeBox.Pe
		case s.Mode.Reuse == "keep" && s.stored(store):
			// a worker that keeps its persister (and whatever it loaded last) for the sessions
			// it finds in the store; a session the store does not know gets one of its own
			// (content already in a persister is what a NEW session starts from)
			if s.PeBox == nil {
				s.PeBox = &PeBox{}
			}
			if s.PeBox.Pe == nil {
				s.PeBox.Pe = persist.NewPersister(store)
			}
			pe = s.PeBox.Pe
		default:
			pe = persist.NewPersister(store)
		}
		en = s.newEngine().WithPersister(pe)
	default:
		panic("unknown mode " + s.Mode.Kind)
	}
	var execErr error
	arg := input
	if s.ReuseBuf && len(input) <= len(s.buf) {
		arg = s.buf[:copy(s.buf[:], input)]
	}
	if !protect("exec", &step, func() { step.Cont, execErr = en.Exec(ctx, arg) }) {
		return s.finish(ctx, en, pe, &step)
	}
	if execErr != nil {
		step.ExecErr = execErr.Error()
		if s.HoldRefused && s.Mode.Kind == "persist" && len(input) > 255 && s.held == nil {
			s.held, s.heldPe, s.heldWait = en, pe, 1
		}
	}
	if execErr == nil || s.FlushOnErr {
		var buf bytes.Buffer
		var ferr error
		if !protect("flush", &step, func() { _, ferr = en.Flush(ctx, &buf) }) {
			return s.finish(ctx, en, pe, &step)
		}
		step.Flushed = true
		step.Out = buf.String()
		if ferr != nil {
			step.FlushErr = ferr.Error()
		}
	}
	return s.finish(ctx, en, pe, &step)
}

func (s *Session) finish(ctx context.Context, en *engine.DefaultEngine, pe *persist.Persister, step *Step) Step {
	if s.Mode.Kind == "objects" && step.Panic == "" {
		var ferr error
		protect("finish", step, func() { ferr = en.Finish(ctx) })
		if ferr != nil {
			step.FinishErr = ferr.Error()
		}
	}
	if s.Mode.Kind == "persist" {
		if step.Panic == "" {
			var ferr error
			protect("finish", step, func() { ferr = en.Finish(ctx) })
			if ferr != nil {
				step.FinishErr = ferr.Error()
			}
		}
		if pe != nil {
			protect("snapshot", step, func() {
				st := pe.GetState()
				ca, _ := pe.GetMemory().(*cache.Cache)
				if st == nil || ca == nil || s.Mode.Reuse == "flush" {
					// (a flushing persister holds nothing after the save)
					// the engine never took the session up (the request was refused before
					// anything was set up): the session is what the store holds
					if store, err := s.Storage.Open(ctx); err == nil {
						p2 := persist.NewPersister(store).WithContent(state.NewState(s.Cfg.FlagCount), cache.NewCache())
						if p2.Load(s.Cfg.SessionId) == nil {
							st = p2.GetState()
							ca, _ = p2.GetMemory().(*cache.Cache)
						}
					}
				}
				step.After = TakeSnapshot(st, ca)
				s.St, s.Ca = st, ca
			})
		}
		return *step
	}
	step.After = TakeSnapshot(s.St, s.Ca)
	return *step
}

// Close ends a long-lived session (saves when a persister is attached).
func (s *Session) Close() error {
	if s.en != nil {
		return s.en.Finish(context.Background())
	}
	return nil
}

// Run serves a whole history and stops after the first request that ends the
// session (cont=false), fails with an execution error on accepted input, or panics.
func (s *Session) Run(inputs []string, stopAtEnd bool) []Step {
	var steps []Step
	for _, in := range inputs {
		st := s.Request([]byte(in))
		steps = append(steps, st)
		if st.Panic != "" || st.Exceeded {
			break
		}
		if stopAtEnd && (!st.Cont || st.ExecErr != "" || st.FlushErr != "") {
			break
		}
	}
	return steps
}
