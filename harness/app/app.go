// Package app describes a generated vise application as plain data (JSON
// serialisable), serves it to the real engine through a recording
// resource.Resource, and drives sessions against the real engine in long-lived
// and persisted operation.
package app

import (
	"context"
	"encoding/json"
	"fmt"
	"os"
	"path/filepath"
	"sort"
	"strings"
	"sync"

	"git.defalsify.org/vise.git/db"
	memdb "git.defalsify.org/vise.git/db/mem"
	"git.defalsify.org/vise.git/lang"
	"git.defalsify.org/vise.git/resource"

	"verifharness/refdec"
)

type Instr = refdec.Instr

// Node is one menu node: bytecode (structured) and render template.
type Node struct {
	Name string  `json:"name"`
	Code []Instr `json:"code"`
	Tpl  string  `json:"tpl"`
}

// Result is one scripted answer of an external function.
type Result struct {
	Content   string   `json:"content"`
	Echo      bool     `json:"echo,omitempty"` // append the client input to Content
	FlagSet   []uint32 `json:"set,omitempty"`
	FlagReset []uint32 `json:"reset,omitempty"`
	Err       bool     `json:"err,omitempty"` // return a Go error (LOADFAIL)
	Status    int      `json:"status,omitempty"`
}

// Sym scripts an external function: the n-th call returns Results[min(n, last)].
type Sym struct {
	Name    string   `json:"name"`
	Results []Result `json:"results"`
}

// Trans holds the translated resources of one language.
type Trans struct {
	Lang      string            `json:"lang"` // ISO-639-3
	Templates map[string]string `json:"templates,omitempty"`
	Menus     map[string]string `json:"menus,omitempty"`
	Statics   map[string]string `json:"statics,omitempty"` // content of scripted symbols in that language
}

type Config struct {
	OutputSize        uint32 `json:"output_size"`
	CacheSize         uint32 `json:"cache_size"`
	FlagCount         uint32 `json:"flag_count"`
	Language          string `json:"language,omitempty"`
	MenuSeparator     string `json:"menu_separator,omitempty"`
	Root              string `json:"root,omitempty"`
	SessionId         string `json:"session_id,omitempty"`
	ResetOnEmptyInput bool   `json:"reset_on_empty,omitempty"`
	// StateDebug / EngineDebug: the engine's debugging switches (flag names in log lines,
	// engine debug output)
	StateDebug  bool `json:"state_debug,omitempty"`
	EngineDebug bool `json:"engine_debug,omitempty"`
	// Debugger: the engine gets the library's SimpleDebug attached (WithDebug), writing to nowhere
	Debugger bool `json:"debugger,omitempty"`
	// First: the engine gets a first function (engine.WithFirst), run before control goes
	// to the bytecode whenever an engine object starts serving
	First *First `json:"first,omitempty"`
}

// First scripts the engine's first function: a constant answer.
type First struct {
	Content string   `json:"content,omitempty"`
	FlagSet []uint32 `json:"flag_set,omitempty"`
	// StopAt: call ordinals at which the function turns the request away (TERMINATE in its
	// FlagSet; its content is then what the client is shown)
	StopAt []int `json:"stop_at,omitempty"`
	// ErrAt: call ordinals at which the function fails (returns an error)
	ErrAt []int `json:"err_at,omitempty"`
}

// App is a whole application.
type App struct {
	Nodes []Node            `json:"nodes"`
	Syms  []Sym             `json:"syms"`
	Menus map[string]string `json:"menus,omitempty"` // label -> text (default language); absent: label itself
	Trans []Trans           `json:"trans,omitempty"`
	Cfg   Config            `json:"cfg"`
}

func (a *App) Node(name string) *Node {
	for i := range a.Nodes {
		if a.Nodes[i].Name == name {
			return &a.Nodes[i]
		}
	}
	return nil
}

func (a *App) Sym(name string) *Sym {
	for i := range a.Syms {
		if a.Syms[i].Name == name {
			return &a.Syms[i]
		}
	}
	return nil
}

func (a *App) RootName() string {
	if a.Cfg.Root == "" {
		return "root"
	}
	return a.Cfg.Root
}

func (a *App) TransFor(code string) *Trans {
	for i := range a.Trans {
		if a.Trans[i].Lang == code {
			return &a.Trans[i]
		}
	}
	return nil
}

// Selectors lists every selector the application's INCMP/MOUT/MNEXT/MPREV lines use.
func (a *App) Selectors() []string {
	set := map[string]bool{}
	for _, n := range a.Nodes {
		for _, in := range n.Code {
			switch in.Op {
			case refdec.INCMP, refdec.MOUT, refdec.MNEXT, refdec.MPREV:
				if in.Sel != "*" {
					set[string(in.Sel)] = true
				}
			}
		}
	}
	var out []string
	for s := range set {
		out = append(out, s)
	}
	sort.Strings(out)
	return out
}

// Encode returns the bytecode of a node (reference encoder; C16 tests the assembler separately).
func (n *Node) Encode() []byte {
	b, err := refdec.EncodeAll(n.Code)
	if err != nil {
		panic(fmt.Sprintf("node %s not encodable: %v", n.Name, err))
	}
	if b == nil {
		b = []byte{}
	}
	return b
}

// ---------------------------------------------------------------------------
// recording resource

// Call is one interaction of the engine with the resource.
type Call struct {
	Kind    string `json:"kind"` // code template menu func call
	Sym     string `json:"sym"`
	Lang    string `json:"lang,omitempty"`    // language code on the context ("" = none)
	Session string `json:"session,omitempty"` // session id on the context
	Input   string `json:"input,omitempty"`   // for call
	N       int    `json:"n,omitempty"`       // for call: ordinal of this call of the symbol
}

// Recorder collects calls; one per session (never shared between goroutines
// of different sessions, but guarded anyway).
type Recorder struct {
	mu     sync.Mutex
	Calls  []Call
	counts map[string]int
	// CodeBudget aborts runaway move loops: more GetCode calls than this in one
	// request makes GetCode fail (and sets Exceeded).
	CodeBudget int
	codeCalls  int
	Exceeded   bool
}

func NewRecorder() *Recorder {
	return &Recorder{counts: map[string]int{}, CodeBudget: 400}
}

// Begin marks the start of a request and returns the index of its first call.
func (r *Recorder) Begin() int {
	r.mu.Lock()
	defer r.mu.Unlock()
	r.codeCalls = 0
	return len(r.Calls)
}

func (r *Recorder) Since(i int) []Call {
	r.mu.Lock()
	defer r.mu.Unlock()
	return append([]Call(nil), r.Calls[i:]...)
}

// Counts returns a copy of the per-symbol call counters (part of what a persisted
// deployment must keep outside the engine: here the harness carries it).
func (r *Recorder) Counts() map[string]int {
	r.mu.Lock()
	defer r.mu.Unlock()
	m := map[string]int{}
	for k, v := range r.counts {
		m[k] = v
	}
	return m
}

func ctxLang(ctx context.Context) string {
	if l, ok := ctx.Value("Language").(lang.Language); ok {
		return l.Code
	}
	return ""
}

func ctxSession(ctx context.Context) string {
	if s, ok := ctx.Value("SessionId").(string); ok {
		return s
	}
	return ""
}

func (r *Recorder) add(c Call) {
	r.mu.Lock()
	r.Calls = append(r.Calls, c)
	r.mu.Unlock()
}

// Shared is the immutable, encoded form of an application that several
// sessions may share (C19): bytecode slices, templates, labels.
type Shared struct {
	App  *App
	Code map[string][]byte
	// UseDb: serve the application through resource.DbResource over a memdb (bytecode,
	// templates, menu labels and static symbol contents as db entries, translated entries
	// under their language) instead of MenuResource getters
	UseDb bool
	// DbStore (UseDb): the store object to populate and serve from, instead of a new one
	DbStore db.Db
	// UsePo: serve templates and menu labels through resource.PoResource over generated
	// gettext catalogues in PoDir (default language eng: node -> template and label ->
	// text in the key domains; per translated language: default text -> translated text)
	UsePo bool
	PoDir string
	// (one PoResource for all sessions of the Shared: templates and labels are immutable
	// application data, the object that serves them is shared like the bytecode)
	poOnce sync.Once
	po     *resource.PoResource
}

func NewShared(a *App) *Shared {
	s := &Shared{App: a, Code: map[string][]byte{}}
	for i := range a.Nodes {
		n := &a.Nodes[i]
		// built by append, hence usually with spare capacity — as a resource
		// that assembles or reads bytecode would hand it out
		enc := n.Encode()
		b := make([]byte, 0, len(enc)+48)
		b = append(b, enc...)
		s.Code[n.Name] = b
	}
	return s
}

// SecondApp: another application that happens to use the same node and symbol names: every
// template says something else.
func SecondApp(a *App) *App {
	raw, err := json.Marshal(a)
	if err != nil {
		panic(err)
	}
	b := &App{}
	if err := json.Unmarshal(raw, b); err != nil {
		panic(err)
	}
	for i := range b.Nodes {
		b.Nodes[i].Tpl = "second " + b.Nodes[i].Tpl + " app"
	}
	for i := range b.Trans {
		for k, v := range b.Trans[i].Templates {
			b.Trans[i].Templates[k] = "second " + v + " app"
		}
	}
	return b
}

// OtherOutputSize: the output size of a second channel the same application is served on.
func OtherOutputSize(n uint32) uint32 {
	if n == 0 {
		return 160
	}
	return 0
}

// ScriptedResult is what the n-th call of a scripted function answers (for oracles that
// work from the recorded call log).
func (a *App) ScriptedResult(sym string, n int, l string, input []byte) (resource.Result, error) {
	return a.scripted(sym, n, l, input)
}

// scripted computes the n-th answer of a scripted function.
func (a *App) scripted(sym string, n int, l string, input []byte) (resource.Result, error) {
	sp := a.Sym(sym)
	if sp == nil || len(sp.Results) == 0 {
		return resource.Result{}, nil
	}
	i := n
	if i >= len(sp.Results) {
		i = len(sp.Results) - 1
	}
	sr := sp.Results[i]
	res := resource.Result{
		Content: sr.Content,
		Status:  sr.Status,
	}
	res.FlagReset, res.FlagSet = guardedFlagLists(sym, n, sr.FlagReset, sr.FlagSet)
	if l != "" {
		if tr := a.TransFor(l); tr != nil {
			if t, ok := tr.Statics[sym]; ok {
				res.Content = t
			}
		}
	}
	if sr.Echo {
		res.Content += string(input)
	}
	if sr.Err {
		return res, fmt.Errorf("scripted failure of %s (call %d)", sym, n)
	}
	return res, nil
}

// IsStatic: a symbol whose function always returns the same plain content (one scripted
// result, no echo, no flags, no error): in UseDb mode it is stored as a static load entry.
func (sp *Sym) IsStatic() bool {
	if len(sp.Results) != 1 {
		return false
	}
	r := sp.Results[0]
	return !r.Echo && !r.Err && len(r.FlagSet) == 0 && len(r.FlagReset) == 0 && r.Status == 0
}

// recording wrapper around any resource.Resource (used for the db-backed variant)
type recResource struct {
	inner resource.Resource
	rec   *Recorder
}

func (r *recResource) GetCode(ctx context.Context, sym string) ([]byte, error) {
	r.rec.add(Call{Kind: "code", Sym: sym, Lang: ctxLang(ctx), Session: ctxSession(ctx)})
	r.rec.mu.Lock()
	r.rec.codeCalls++
	over := r.rec.codeCalls > r.rec.CodeBudget
	if over {
		r.rec.Exceeded = true
	}
	r.rec.mu.Unlock()
	if over {
		return nil, fmt.Errorf("harness: move budget exceeded")
	}
	return r.inner.GetCode(ctx, sym)
}

func (r *recResource) GetTemplate(ctx context.Context, sym string) (string, error) {
	r.rec.add(Call{Kind: "template", Sym: sym, Lang: ctxLang(ctx), Session: ctxSession(ctx)})
	return r.inner.GetTemplate(ctx, sym)
}

func (r *recResource) GetMenu(ctx context.Context, sym string) (string, error) {
	r.rec.add(Call{Kind: "menu", Sym: sym, Lang: ctxLang(ctx), Session: ctxSession(ctx)})
	return r.inner.GetMenu(ctx, sym)
}

func (r *recResource) FuncFor(ctx context.Context, sym string) (resource.EntryFunc, error) {
	r.rec.add(Call{Kind: "func", Sym: sym, Lang: ctxLang(ctx), Session: ctxSession(ctx)})
	fn, err := r.inner.FuncFor(ctx, sym)
	if err != nil || fn == nil {
		return fn, err
	}
	return func(ctx context.Context, nodeSym string, input []byte) (resource.Result, error) {
		r.rec.mu.Lock()
		n := r.rec.counts[sym]
		r.rec.counts[sym] = n + 1
		r.rec.mu.Unlock()
		r.rec.add(Call{Kind: "call", Sym: sym, Lang: ctxLang(ctx), Session: ctxSession(ctx), Input: string(input), N: n})
		ctx = context.WithValue(ctx, callOrdinalKey{}, n)
		return fn(ctx, nodeSym, input)
	}, nil
}

func (r *recResource) Close(ctx context.Context) error { return r.inner.Close(ctx) }

type callOrdinalKey struct{}

// dbResource builds resource.DbResource over a freshly populated memdb.
func (s *Shared) dbResource(rec *Recorder) resource.Resource {
	a := s.App
	ctx := context.Background()
	// (DbStore: the application keeps everything in one store object, which also holds
	// the sessions - the set-up of the repository's examples/db)
	store := s.DbStore
	if store == nil {
		store = memdb.NewMemDb()
		store.Connect(ctx, "")
	}
	store.SetLock(db.DATATYPE_BIN|db.DATATYPE_MENU|db.DATATYPE_TEMPLATE|db.DATATYPE_STATICLOAD, false)
	put := func(typ uint8, key string, val []byte, l string) {
		store.SetPrefix(typ)
		if l == "" {
			store.SetLanguage(nil)
		} else {
			ln, err := lang.LanguageFromCode(l)
			if err != nil {
				panic(err)
			}
			store.SetLanguage(&ln)
		}
		if err := store.Put(ctx, []byte(key), val); err != nil {
			panic(err)
		}
		store.SetLanguage(nil)
	}
	for i := range a.Nodes {
		n := &a.Nodes[i]
		put(db.DATATYPE_BIN, n.Name, s.Code[n.Name], "")
		put(db.DATATYPE_TEMPLATE, n.Name, []byte(n.Tpl), "")
	}
	for k, v := range a.Menus {
		put(db.DATATYPE_MENU, k+"_menu", []byte(v), "")
	}
	for i := range a.Syms {
		if a.Syms[i].IsStatic() {
			put(db.DATATYPE_STATICLOAD, a.Syms[i].Name, []byte(a.Syms[i].Results[0].Content), "")
		}
	}
	for _, tr := range a.Trans {
		for k, v := range tr.Templates {
			put(db.DATATYPE_TEMPLATE, k, []byte(v), tr.Lang)
		}
		for k, v := range tr.Menus {
			put(db.DATATYPE_MENU, k+"_menu", []byte(v), tr.Lang)
		}
		for k, v := range tr.Statics {
			if sp := a.Sym(k); sp != nil && sp.IsStatic() {
				put(db.DATATYPE_STATICLOAD, k, []byte(v), tr.Lang)
			}
		}
	}
	store.SetLock(db.DATATYPE_BIN|db.DATATYPE_MENU|db.DATATYPE_TEMPLATE|db.DATATYPE_STATICLOAD, true)
	rs := resource.NewDbResource(store).With(db.DATATYPE_STATICLOAD)
	for i := range a.Syms {
		sp := &a.Syms[i]
		if sp.IsStatic() {
			continue
		}
		name := sp.Name
		rs.AddLocalFunc(name, func(ctx context.Context, nodeSym string, input []byte) (resource.Result, error) {
			n, _ := ctx.Value(callOrdinalKey{}).(int)
			return a.scripted(name, n, ctxLang(ctx), input)
		})
	}
	return &recResource{inner: rs, rec: rec}
}

// Resource builds a resource.Resource over the shared application data that
// records into rec.
func poQuote(t string) string {
	r := strings.NewReplacer("\\", "\\\\", "\"", "\\\"", "\n", "\\n", "\t", "\\t", "\r", "\\r")
	return "\"" + r.Replace(t) + "\""
}

func writePo(path, lang string, entries [][2]string) error {
	var sb strings.Builder
	sb.WriteString("msgid \"\"\nmsgstr \"\"\n\t\"Content-Type: text/plain; charset=UTF-8\\n\"\n\t\"Language: " + lang + "\\n\"\n")
	seen := map[string]bool{}
	for _, e := range entries {
		if e[0] == "" || seen[e[0]] {
			continue
		}
		seen[e[0]] = true
		sb.WriteString("\nmsgid " + poQuote(e[0]) + "\nmsgstr " + poQuote(e[1]) + "\n")
	}
	if err := os.MkdirAll(filepath.Dir(path), 0o700); err != nil {
		return err
	}
	return os.WriteFile(path, []byte(sb.String()), 0o600)
}

// WritePo writes the gettext catalogues of the application below dir.
func (s *Shared) WritePo(dir string) error {
	a := s.App
	var tpls, menus [][2]string
	for _, n := range a.Nodes {
		tpls = append(tpls, [2]string{n.Name, n.Tpl})
	}
	var labels []string
	for k := range a.Menus {
		labels = append(labels, k)
	}
	sort.Strings(labels)
	for _, k := range labels {
		menus = append(menus, [2]string{k, a.Menus[k]})
	}
	if err := writePo(filepath.Join(dir, "eng", resource.TemplateKeyPoDomain+".po"), "eng", tpls); err != nil {
		return err
	}
	if err := writePo(filepath.Join(dir, "eng", resource.MenuKeyPoDomain+".po"), "eng", menus); err != nil {
		return err
	}
	if err := writePo(filepath.Join(dir, "eng", resource.PoDomain+".po"), "eng", nil); err != nil {
		return err
	}
	for _, tr := range a.Trans {
		var es [][2]string
		var ks []string
		for k := range tr.Templates {
			ks = append(ks, k)
		}
		sort.Strings(ks)
		for _, k := range ks {
			if n := a.Node(k); n != nil {
				es = append(es, [2]string{n.Tpl, tr.Templates[k]})
			}
		}
		ks = nil
		for k := range tr.Menus {
			ks = append(ks, k)
		}
		sort.Strings(ks)
		for _, k := range ks {
			def, ok := a.Menus[k]
			if !ok {
				def = k
			}
			es = append(es, [2]string{def, tr.Menus[k]})
		}
		if err := writePo(filepath.Join(dir, tr.Lang, resource.PoDomain+".po"), tr.Lang, es); err != nil {
			return err
		}
	}
	return nil
}

func (s *Shared) poResource(rec *Recorder) resource.Resource {
	s.poOnce.Do(func() {
		a := s.App
		def, err := lang.LanguageFromCode("eng")
		if err != nil {
			panic(err)
		}
		rs := resource.NewPoResource(def, s.PoDir)
		for _, tr := range a.Trans {
			ln, err := lang.LanguageFromCode(tr.Lang)
			if err != nil {
				panic(err)
			}
			rs = rs.WithLanguage(ln)
		}
		rs.WithCodeGetter(func(ctx context.Context, sym string) ([]byte, error) {
			b, ok := s.Code[sym]
			if !ok {
				return nil, fmt.Errorf("no such node: %s", sym)
			}
			return b, nil
		})
		rs.WithEntryFuncGetter(func(ctx context.Context, sym string) (resource.EntryFunc, error) {
			if a.Sym(sym) == nil {
				return nil, fmt.Errorf("unknown function: %s", sym)
			}
			return func(ctx context.Context, nodeSym string, input []byte) (resource.Result, error) {
				n, _ := ctx.Value(callOrdinalKey{}).(int)
				return a.scripted(sym, n, ctxLang(ctx), input)
			}, nil
		})
		s.po = rs
	})
	return &recResource{inner: s.po, rec: rec}
}

func (s *Shared) Resource(rec *Recorder) resource.Resource {
	if s.UseDb {
		return s.dbResource(rec)
	}
	if s.UsePo {
		return s.poResource(rec)
	}
	a := s.App
	rs := resource.NewMenuResource()
	rs.WithCodeGetter(func(ctx context.Context, sym string) ([]byte, error) {
		rec.add(Call{Kind: "code", Sym: sym, Lang: ctxLang(ctx), Session: ctxSession(ctx)})
		rec.mu.Lock()
		rec.codeCalls++
		over := rec.codeCalls > rec.CodeBudget
		if over {
			rec.Exceeded = true
		}
		rec.mu.Unlock()
		if over {
			return nil, fmt.Errorf("harness: move budget exceeded")
		}
		b, ok := s.Code[sym]
		if !ok {
			return nil, fmt.Errorf("no such node: %s", sym)
		}
		return b, nil
	})
	rs.WithTemplateGetter(func(ctx context.Context, sym string) (string, error) {
		l := ctxLang(ctx)
		rec.add(Call{Kind: "template", Sym: sym, Lang: l, Session: ctxSession(ctx)})
		n := a.Node(sym)
		if n == nil {
			return "", fmt.Errorf("no template for node: %s", sym)
		}
		if l != "" {
			if tr := a.TransFor(l); tr != nil {
				if t, ok := tr.Templates[sym]; ok {
					return t, nil
				}
			}
		}
		return n.Tpl, nil
	})
	rs.WithMenuGetter(func(ctx context.Context, sym string) (string, error) {
		l := ctxLang(ctx)
		rec.add(Call{Kind: "menu", Sym: sym, Lang: l, Session: ctxSession(ctx)})
		if l != "" {
			if tr := a.TransFor(l); tr != nil {
				if t, ok := tr.Menus[sym]; ok {
					return t, nil
				}
			}
		}
		if t, ok := a.Menus[sym]; ok {
			return t, nil
		}
		return sym, nil
	})
	rs.WithEntryFuncGetter(func(ctx context.Context, sym string) (resource.EntryFunc, error) {
		rec.add(Call{Kind: "func", Sym: sym, Lang: ctxLang(ctx), Session: ctxSession(ctx)})
		sp := a.Sym(sym)
		if sp == nil {
			return nil, fmt.Errorf("unknown function: %s", sym)
		}
		return func(ctx context.Context, nodeSym string, input []byte) (resource.Result, error) {
			rec.mu.Lock()
			n := rec.counts[sym]
			rec.counts[sym] = n + 1
			rec.mu.Unlock()
			l := ctxLang(ctx)
			rec.add(Call{Kind: "call", Sym: sym, Lang: l, Session: ctxSession(ctx), Input: string(input), N: n})
			return a.scripted(sym, n, l, input)
		}, nil
	})
	return rs
}

// SetCounts restores per-symbol call counters (persisted mode creates a new
// resource per request; the script position must carry over).
func (r *Recorder) SetCounts(m map[string]int) {
	r.mu.Lock()
	defer r.mu.Unlock()
	r.counts = map[string]int{}
	for k, v := range m {
		r.counts[k] = v
	}
}

func (c Call) String() string {
	s := c.Kind + ":" + c.Sym
	if c.Lang != "" {
		s += "@" + c.Lang
	}
	if c.Kind == "call" {
		s += fmt.Sprintf("(%q)#%d", c.Input, c.N)
	}
	return s
}

func CallsString(cs []Call) string {
	var parts []string
	for _, c := range cs {
		parts = append(parts, c.String())
	}
	return strings.Join(parts, " ")
}

// Flag lists are handed to the library the way an application with one flag table would:
// as windows into a larger array, with spare capacity behind them. The library may read
// them; what lies behind and between them is the application's and must stay as it was
// (FlagGuardsTampered reports any change).
const flagGuard = 0xfffffff1

type flagGuardEntry struct {
	backing, want []uint32
	what          string
}

var flagGuardMu sync.Mutex
var flagGuardList []flagGuardEntry

func guardedFlagLists(sym string, n int, reset, set []uint32) (r, s []uint32) {
	if len(reset) == 0 && len(set) == 0 {
		return nil, nil
	}
	backing := make([]uint32, 0, len(reset)+len(set)+6)
	backing = append(backing, reset...)
	backing = append(backing, flagGuard, flagGuard, flagGuard)
	backing = append(backing, set...)
	backing = append(backing, flagGuard, flagGuard, flagGuard)
	want := append([]uint32(nil), backing...)
	flagGuardMu.Lock()
	if len(flagGuardList) > 4096 {
		flagGuardList = flagGuardList[2048:]
	}
	flagGuardList = append(flagGuardList, flagGuardEntry{backing, want, fmt.Sprintf("call %d of %s (FlagReset %v, FlagSet %v)", n, sym, reset, set)})
	flagGuardMu.Unlock()
	if len(reset) > 0 {
		r = backing[:len(reset)]
	}
	if len(set) > 0 {
		s = backing[len(reset)+3 : len(reset)+3+len(set)]
	}
	return r, s
}

// FlagGuardsTampered verifies and forgets the flag lists handed out so far: "" if the
// arrays they were windows into are unchanged.
func FlagGuardsTampered() string {
	flagGuardMu.Lock()
	defer flagGuardMu.Unlock()
	defer func() { flagGuardList = nil }()
	for _, e := range flagGuardList {
		for i := range e.want {
			if e.backing[i] != e.want[i] {
				return fmt.Sprintf("the library wrote into the application's flag table: the array behind the lists returned by %s was %v and is now %v", e.what, e.want, e.backing)
			}
		}
	}
	return ""
}
