#!/usr/bin/env python3
# assembles DESIGN.md from design_parts/ + known_findings.json + seeded/*/meta.json
import json, glob, os
V = '/verif'
P = V + '/design_parts/'
main = open(P + 'main.md').read()
k = json.load(open(V + '/known_findings.json'))['findings']
def esc(s): return s.replace('|', '\\|').replace('\n', ' ')
f = ["## 5. What the checks found on the pinned tree", "",
     "Each entry was demonstrated by its check against the real code (failing input, history, schedule or",
     "crash point in `known_findings.json` → `example`). *Fixed* = one minimal unguarded `fix:` commit in",
     "`/repo`, the unedited suite passes with it, the example is a permanent regression case. *Known* = not",
     "repaired (reason in the text), recognised by a narrow predicate, printed as `KNOWN-FINDING:` on every run.", "",
     "### 5.1 Repaired (`fix:` commits)", "",
     "| finding | property | commit | site | what failed |", "|---|---|---|---|---|"]
for x in k:
    if x['status'] == 'fixed':
        f.append("| %s | %s | %s | `%s` | %s |" % (x['id'], x['property'], x['commit'], esc(x.get('site', '')), esc(x['what'])))
f += ["", "One root cause can show under two properties (d136c75: F-C03-1 and F-C08-3). Repairs I tried and",
      "dropped because the unedited suite asserts the defective behaviour: the `maxlevel` panic",
      "(`TestStateMaxMovement`), resetting pg `multi` at Stop (`TestPostgresTxStartStop`), re-checking the row",
      "that opens a page in `joinSink` (`TestManySizes`).", "",
      "### 5.2 Known findings (recorded, not repaired)", "",
      "| finding | property | site | predicate | what fails / why not repaired |", "|---|---|---|---|---|"]
for x in k:
    if x['status'] == 'known':
        f.append("| %s | %s | `%s` | `%s` | %s |" % (x['id'], x['property'], esc(x.get('site', '')), x.get('predicate', ''), esc(x['what'])))
f += ["", "Observations that are *not* findings (no listed property is broken): the assembler rejects",
      "upper-case-leading symbols, comment-only lines and white-space-only/leading blank lines with a parse",
      "error (valid by the documented grammar, but a rejection is not an altered output: C16 counts them);",
      "`asm.Batcher` re-emits earlier batch items if batch lines are not at the end of a node (the",
      "documentation requires the end); pg `Close()` returns `ErrSingleTx` in plain single mode; pg `Dump`",
      "commits while its rows are still being read (listing is specified for the filesystem backend only);",
      "`state.SetFlag`'s range",
      "check `bitIndex+1 > BitSize` wraps for index 2^32-1 (still a panic, as the documented precondition says);",
      "`dev/disasm` prints the listing with `fmt.Printf(listing)`, so a `%` in a symbol is garbled on output (the",
      "library's disassembler, which C14 judges, is right); pg and gdbm `Dump` clear the handle's language as a",
      "side effect; with a first function configured, its answer replaces the cache's last value at every start of",
      "an engine, so a persisted session that ends right after a HALT appends the first function's content rather",
      "than the last loaded value (the first function is outside the listed properties; C07 does not use one)."]
findings = "\n".join(f)
rows = []
for mf in sorted(glob.glob(V + '/seeded/*/meta.json')):
    m = json.load(open(mf))
    rows.append("| %s | %s | %s | %s | %s |" % (m['id'], m['property'], esc(m['what']), esc(m['needs']), esc(m['caught_by'])))
seeded = ["## 9. Seeded changes and which checks catch them", "",
          "Changes to nolash/go-vise that break a property while still compiling and passing the unedited",
          "suite, written by fresh sub-agents that were given only the property text and a scratch worktree",
          "(nothing from /verif), each confirmed by me in a scratch worktree (suite passes, demonstration",
          "fails with the change and passes without) before it was kept under `/verif/seeded/<id>/`",
          "(`patch.diff`, demonstration, `meta.json`). `caught by` = the registered check(s) that report a",
          "VIOLATION with the patch applied (tier, and what had to be strengthened first). Round 1 = m1/m2,",
          "round 2 (agents told what round 1 had done, asked for rarer triggers) = m3/m4, round 3 (told about both,",
          "pointed at seldom-used features) = m5/m6. `tools_seed_verify.sh`",
          "re-confirms all of them against the current trees and writes `seeded/VERIFY.md`; patches made against an",
          "older /repo HEAD were re-based where a later `fix:` commit touched the same lines (C01-m1, C06-m4,",
          "C08-m3, C13-m4, C17-m3); C17-m2 (fix 3d4bafe) and C06-m5 = C20-m6 (fix 73d2263) are no longer violations and are kept for the record. The checks run against a scratch worktree with the patch applied (`VERIF_REPO`), which is the",
          "same build as `git -C /repo apply` + check + `git -C /repo checkout -- .` (`IN_REPO=1 tools_seed.sh`",
          "does it literally) but leaves /repo alone while other checks are running.", "",
          "| id | property | change | needs to manifest | caught by |", "|---|---|---|---|---|"] + rows
if not rows:
    seeded.append("| (none recorded yet) | | | | |")
seeded_txt = "\n".join(seeded)
extra = P + 'seeded_notes.md'
if os.path.exists(extra):
    seeded_txt += "\n\n" + open(extra).read()
nfixed=sum(1 for x in k if x['status']=='fixed'); nknown=sum(1 for x in k if x['status']=='known'); ncommits=len({x['commit'] for x in k if x['status']=='fixed'})
main = main.replace('NFIXED', str(nfixed)).replace('NKNOWN', str(nknown)).replace('NCOMMITS', str(ncommits))
out = main.replace('SEC1', open(P + 'sec1.md').read().rstrip()).replace('FINDINGS', findings).replace('SEC6', open(P + 'sec6.md').read().rstrip()) \
          .replace('SEEDED', seeded_txt).replace('APPA', open(P + 'appA.md').read().rstrip())
open(V + '/DESIGN.md', 'w').write(out + "\n")
print('DESIGN.md', len(out.splitlines()), 'lines')
