#!/usr/bin/env python3
# regenerates MANIFEST.json from props_meta.json (claimed checks) and na_reasons (everything else)
import json, subprocess
V = '/verif'
meta = json.load(open(V + '/props_meta.json'))
ids = [json.loads(l)['id'] for l in open(V + '/properties.jsonl')]
hooks_commits = []
try:
    out = subprocess.run(['git', '-C', '/repo', 'log', '--format=%h %s'], capture_output=True, text=True).stdout
    hooks_commits = [l.split()[0] for l in out.splitlines() if l.split(' ', 1)[1].startswith('verif hook')]
except Exception:
    pass
m = {
 "version": 1,
 "setup_cmd": "./check --setup",
 "hooks": {
  "guard": "verif",
  "enable": "go test -tags verif (harness/go.mod replaces git.defalsify.org/vise.git with /repo, so every check binary is rebuilt from /repo's working tree with the tag on)",
  "baseline_off_cmd": "cd /repo && GOFLAGS=-mod=mod go test -json -vet=off -count=1 -timeout 25m ./...",
  "source_commits": hooks_commits,
  "add_only": True
 },
 "engines": [{"name": "rapid-harness", "path": "/verif/harness", "serves_properties": [],
   "kind_free_text": "Go test binary (pgregory.net/rapid v1.3.0 generators + shrinking, bounded exhaustive enumerations, native go fuzzing) driven by /verif/check; oracles: reference models, round-trips, differential and metamorphic relations"}],
 "checks": [], "notes": "Approach, oracles, tolerated corners and findings: DESIGN.md. Genuine defects: known_findings.json (status known|fixed).",
 "not_applicable": []
}
for pid in ids:
    p = meta.get(pid)
    if p and p.get('claimed', True):
        c = {"property_id": pid, "quick_cmd": "./check %s --tier quick" % pid, "thorough_cmd": "./check %s --tier thorough" % pid,
             "evidence_file": "/verif/evidence/%s.json" % pid, "replay_cmd_template": "./check %s --replay {path}" % pid,
             "engine": "rapid-harness",
             "level_claimed": {"category": p['level'], "text": p['level_text'], "design_ref": "DESIGN.md §4 " + pid},
             "level_note": p['level_note'], "technique": p['technique']}
        m['checks'].append(c)
    else:
        reason = (p or {}).get('na_reason', "check not built yet (planned in DESIGN.md §4); not claimed until it runs")
        m['not_applicable'].append({"property_id": pid, "reason": reason})
m['engines'][0]['serves_properties'] = [c['property_id'] for c in m['checks']]
json.dump(m, open(V + '/MANIFEST.json', 'w'), indent=1)
print('claimed', len(m['checks']), 'n/a', len(m['not_applicable']))
