#!/bin/bash
# Re-confirms every seeded change against the current trees and writes seeded/VERIFY.md.
# For each seeded/<id>/: a scratch worktree of /repo HEAD, patch.diff applied there (a patch made
# against an older HEAD is re-applied with reduced context and noted), the existing suite run with
# it, the demonstration run with it, then the check(s) named in meta.json (quick tier unless TIER
# is set) run against that worktree (VERIF_REPO) from a snapshot of /verif. /repo is not touched.
# usage: tools_seed_verify.sh [id ...]      JOBS=<parallel runs, default 4>
cd /verif
export GOFLAGS=-mod=mod GOPROXY=off GOSUMDB=off GOTOOLCHAIN=local
snap=/var/tmp/vsnapV.$$
rsync -a --exclude .git --exclude replays --exclude evidence /verif/ $snap/
mkdir -p $snap/replays $snap/evidence $snap/out
PK="./asm/... ./cache/... ./db ./db/fs/... ./db/mem/... ./db/postgres/... ./engine/... ./lang/... ./persist/... ./render/... ./resource/... ./state/... ./vm/..."
one() {
  id=$1; d=/verif/seeded/$id; res=$snap/out/$id
  [ -f $d/patch.diff ] || return
  if python3 -c "import json,sys; sys.exit(0 if json.load(open('$d/meta.json')).get('neutralised') else 1)"; then
    echo "| $id | - | - | no longer a violation on this tree (see meta.json: neutralised); kept for the record |" > $res
    return
  fi
  wt=/var/tmp/vwtV.$$.$id
  git -C /repo worktree add -q --detach $wt HEAD || { echo "| $id | - | worktree failed | |" > $res; return; }
  note=""
  ( cd $wt && git apply $d/patch.diff 2>/dev/null ) || { ( cd $wt && git apply -C1 $d/patch.diff 2>/dev/null ) && note=" (re-applied with reduced context)"; } || { echo "| $id | - | patch does not apply | |" > $res; echo "DOES-NOT-APPLY $id" >> $snap/out/_missed; git -C /repo worktree remove --force $wt; return; }
  suite=pass; ( cd $wt && go test -vet=off -count=1 $PK >/dev/null 2>&1 ) || suite=FAIL
  demo="-"
  for t in $d/*_test.go; do
    [ -f "$t" ] || continue
    p=$(grep -m1 '^package ' $t | awk '{print $2}' | sed 's/_test$//')
    case "$p" in fs) pkg=db/fs;; mem) pkg=db/mem;; postgres) pkg=db/postgres;; db) pkg=db;; main) pkg=dev/disasm;; *) pkg=$p;; esac
    dp=$(python3 -c "import json; print(json.load(open('$d/meta.json')).get('demo_pkg',''))")
    [ -n "$dp" ] && pkg=$dp
    [ -d $wt/$pkg ] || continue
    cp $t $wt/$pkg/zz_seed_$(basename $t)
  done
  if find $wt -name "zz_seed_*" | grep -q .; then
    demo="fails"
    pkgs=$(cd $wt && find . -name "zz_seed_*" | xargs -n1 dirname | sort -u)
    race=$(python3 -c "import json; print('-race' if json.load(open('$d/meta.json')).get('demo_race') else '')")
    ( cd $wt && go test $race -vet=off -count=1 $pkgs >/dev/null 2>&1 ) && demo="PASSES"
    find $wt -name "zz_seed_*" -delete
  fi
  if python3 -c "import json,sys; sys.exit(0 if json.load(open('$d/meta.json')).get('neutralised') else 1)"; then
    echo "| $id$note | suite $suite, demo $demo | - | no longer a violation on this tree (see meta.json: neutralised) |" > $res
    git -C /repo worktree remove --force $wt; return
  fi
  checks=$(python3 -c "import json,re; m=json.load(open('$d/meta.json')); print(' '.join(dict.fromkeys(re.findall(r'C\d\d', m['caught_by']))))")
  : > $res; caught=0
  for c in $checks; do
    o=$(cd $snap && VERIF_REPO=$wt VERIF_EVIDENCE_DIR=/var/tmp/verif-evidence-scratch.$id ./check $c --tier ${TIER:-quick} 2>&1); rc=$?
    line=$(echo "$o" | grep -v "rapid\] draw\|KNOWN-FINDING" | grep -m1 "violated\|DATA RACE\|VERIF-VIOLATION\|regression" | sed 's/^ *//' | cut -c1-170 | tr '|' '/')
    echo "| $id$note | suite $suite, demo $demo | $c exit $rc | $line |" >> $res
    [ $rc -eq 1 ] && caught=1
  done
  [ $caught -eq 1 ] || echo "MISSED $id" >> $snap/out/_missed
  [ $suite = pass ] || echo "SUITE-FAILS $id" >> $snap/out/_missed
  if [ "$demo" = PASSES ] && ! python3 -c "import json,sys; sys.exit(0 if json.load(open('$d/meta.json')).get('demo_stale') else 1)"; then echo "DEMO-PASSES $id" >> $snap/out/_missed; fi
  rm -rf /var/tmp/verif-evidence-scratch.$id
  git -C /repo worktree remove --force $wt
}
export -f one; export snap PK TIER
ids="$*"; [ -n "$ids" ] || ids=$(ls seeded | grep -v VERIFY)
echo $ids | tr ' ' '\n' | xargs -P ${JOBS:-4} -I{} bash -c 'one {}'
out=seeded/VERIFY.md
if [ -z "$*" ]; then
  echo "# seeded changes vs checks — $(date -u +%FT%TZ), /verif $(git rev-parse --short HEAD), /repo $(git -C /repo rev-parse --short HEAD), tier ${TIER:-quick}, VERIF_SEED=${VERIF_SEED:-1}" > $out
  echo >> $out; echo "| seeded change | in a scratch worktree with the patch | check | first violation line |" >> $out; echo "|---|---|---|---|" >> $out
  for id in $ids; do cat $snap/out/$id 2>/dev/null >> $out; done
  echo >> $out; echo "problems: $(cat $snap/out/_missed 2>/dev/null | tr '\n' ';')" >> $out
else
  for id in $ids; do cat $snap/out/$id 2>/dev/null; done
fi
cat $snap/out/_missed 2>/dev/null; echo "done"
rm -rf $snap
