#!/bin/bash
# re-applies every seeded change to /repo, runs the check(s) named in its meta.json (quick tier, VERIF_SEED as given or 1),
# restores /repo, and writes seeded/VERIFY.md: which checks report a VIOLATION for which change
cd /verif
out=seeded/VERIFY.md
echo "# seeded changes vs checks — $(date -u +%FT%TZ), /verif $(git rev-parse --short HEAD), /repo $(git -C /repo rev-parse --short HEAD), tier ${TIER:-quick}, VERIF_SEED=${VERIF_SEED:-1}" > $out
echo >> $out; echo "| seeded change | check | exit | first violation line |" >> $out; echo "|---|---|---|---|" >> $out
if ! git -C /repo diff --quiet; then echo "/repo dirty"; exit 2; fi
miss=0
for d in seeded/*/; do
  id=$(basename $d); [ -f $d/patch.diff ] || continue
  checks=$(python3 -c "import json,re,sys; m=json.load(open('$d/meta.json')); print(' '.join(dict.fromkeys(re.findall(r'C\d\d', m['caught_by']))))")
  git -C /repo apply $d/patch.diff || { echo "| $id | - | patch does not apply | |" >> $out; continue; }
  caught=0
  for c in $checks; do
    o=$(VERIF_EVIDENCE_DIR=/var/tmp/verif-evidence-scratch ./check $c --tier ${TIER:-quick} 2>&1); rc=$?
    line=$(echo "$o" | grep -v "rapid\] draw\|KNOWN-FINDING" | grep -m1 "violated\|DATA RACE\|VERIF-VIOLATION" | cut -c1-160 | tr '|' '/')
    echo "| $id | $c | $rc | $line |" >> $out
    [ $rc -eq 1 ] && caught=1
  done
  git -C /repo checkout -- .
  [ $caught -eq 1 ] || { miss=$((miss+1)); echo "MISSED: $id"; }
done
echo >> $out; echo "missed: $miss" >> $out
echo "missed: $miss"
