#!/bin/bash
# usage: tools_try.sh <patch-file | revert:<commit>> <ID> [tier]   — run one check against a scratch
# worktree of /repo HEAD with a change applied (/repo itself is not touched)
set -u
what="$1"; id="$2"; tier="${3:-quick}"
wt=/var/tmp/vtry.$$
git -C /repo worktree add -q --detach $wt HEAD || exit 2
trap 'git -C /repo worktree remove --force $wt 2>/dev/null' EXIT
cd $wt || exit 2
if [[ "$what" == revert:* ]]; then
  c="${what#revert:}"
  git diff "$c^" "$c" | git apply -R || { echo "cannot revert $c"; exit 2; }
else
  git apply "$what" || { echo "cannot apply $what"; exit 2; }
fi
cd /verif && VERIF_REPO=$wt VERIF_EVIDENCE_DIR=/var/tmp/verif-evidence-scratch ./check "$id" --tier "$tier" 2>&1 | grep -v "rapid\] draw\|WARNING" | tail -${TAIL:-6}
exit ${PIPESTATUS[0]}
