#!/bin/bash
# usage: tools_try.sh <patch-file | revert:<commit>> <ID> [tier]   — apply a change to /repo, run one check, undo the change
set -u
what="$1"; id="$2"; tier="${3:-quick}"
cd /repo || exit 2
if ! git diff --quiet; then echo "/repo has uncommitted changes"; exit 2; fi
if [[ "$what" == revert:* ]]; then
  c="${what#revert:}"
  git diff "$c^" "$c" | git apply -R || { echo "cannot revert $c"; exit 2; }
else
  git apply "$what" || { echo "cannot apply $what"; exit 2; }
fi
cd /verif && VERIF_EVIDENCE_DIR=/var/tmp/verif-evidence-scratch ./check "$id" --tier "$tier" 2>&1 | grep -v "rapid\] draw" | tail -${TAIL:-6}
rc=${PIPESTATUS[0]}
git -C /repo checkout -- . && git -C /repo status --short | head -3
exit $rc
